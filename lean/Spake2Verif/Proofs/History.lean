import Spake2Verif.Proofs.SerializeProofs
/-!
Property C07: the `start / finish / serialize / from_serialized` state machine of one session
object, over EVERY finite history of operations and EVERY `G : Group` (the group operations may
raise anything, unless a hypothesis says otherwise).

* `start_once`, `finish_once`, `restore_resets_finished`, `early_calls`,
  `finish_before_start_not_ok`, `scalar_constant*`, `refines_automaton*`, `fsm_errors_exact`.
-/
namespace Spake2Model
namespace History
open Serialize

variable {G : Group}

/-! ### histories -/

/-- the operations of a single-instance history.  `restore` = serialise the current instance and
continue with `from_serialized(data, params)` of the same class; if either half fails the current
instance is kept and the error is the output; if both succeed the output is the serialised blob. -/
inductive HOp
  | start
  | finish (msg : Bytes)
  | serialize
  | restore
  deriving Repr, DecidableEq

def stepH (i : Inst G) : HOp → Inst G × R Bytes
  | .start => i.start
  | .finish msg => i.finish msg
  | .serialize => (i, i.serialize)
  | .restore =>
    match i.serialize with
    | .error e => (i, .error e)
    | .ok data =>
      match fromSerialized i.side data i.params with
      | .error e => (i, .error e)
      | .ok j => (j, .ok data)

def runHist (i : Inst G) : List HOp → Inst G × List (R Bytes)
  | [] => (i, [])
  | op :: rest =>
    let r := stepH i op
    let r' := runHist r.1 rest
    (r'.1, r.2 :: r'.2)

/-- the instance in use just before operation number `k` -/
def stateAt (i : Inst G) (ops : List HOp) (k : Nat) : Inst G := (runHist i (ops.take k)).1

/-! ### generic facts about `runHist` -/

@[simp] theorem stepH_start (i : Inst G) : stepH i .start = i.start := rfl
@[simp] theorem stepH_finish (i : Inst G) (msg : Bytes) : stepH i (.finish msg) = i.finish msg := rfl
@[simp] theorem stepH_serialize (i : Inst G) : stepH i .serialize = (i, i.serialize) := rfl

@[simp] theorem stateAt_zero (i : Inst G) (ops : List HOp) : stateAt i ops 0 = i := rfl

theorem stateAt_cons_succ (i : Inst G) (op : HOp) (rest : List HOp) (k : Nat) :
    stateAt i (op :: rest) (k + 1) = stateAt (stepH i op).1 rest k := rfl

theorem runHist_length (i : Inst G) (ops : List HOp) : (runHist i ops).2.length = ops.length := by
  induction ops generalizing i with
  | nil => rfl
  | cons op rest ih => simp [runHist, ih]

theorem stateAt_succ {i : Inst G} {ops : List HOp} {k : Nat} {op : HOp} (h : ops[k]? = some op) :
    stateAt i ops (k + 1) = (stepH (stateAt i ops k) op).1 := by
  induction ops generalizing i k with
  | nil => simp at h
  | cons a rest ih =>
    cases k with
    | zero =>
      simp only [List.getElem?_cons_zero, Option.some.injEq] at h
      subst h
      simp [stateAt, runHist]
    | succ k =>
      simp only [List.getElem?_cons_succ] at h
      rw [stateAt_cons_succ, stateAt_cons_succ, ih h]

theorem out_get {i : Inst G} {ops : List HOp} {k : Nat} {op : HOp} (h : ops[k]? = some op) :
    (runHist i ops).2[k]? = some (stepH (stateAt i ops k) op).2 := by
  induction ops generalizing i k with
  | nil => simp at h
  | cons a rest ih =>
    cases k with
    | zero =>
      simp only [List.getElem?_cons_zero, Option.some.injEq] at h
      subst h
      simp [runHist]
    | succ k =>
      simp only [List.getElem?_cons_succ] at h
      rw [stateAt_cons_succ]
      simp only [runHist, List.getElem?_cons_succ]
      exact ih h

theorem stateAt_length (i : Inst G) (ops : List HOp) : stateAt i ops ops.length = (runHist i ops).1 := by
  simp [stateAt]

/-- the outputs of a prefix are the prefix of the outputs -/
theorem runHist_take (i : Inst G) (ops : List HOp) (k : Nat) :
    (runHist i (ops.take k)).2 = (runHist i ops).2.take k := by
  induction ops generalizing i k with
  | nil => simp [runHist]
  | cons a rest ih =>
    cases k with
    | zero => simp [runHist]
    | succ k => simp [runHist, ih]

/-- an invariant `P` that every step preserves as long as the (operation, output) pair satisfies
`A` holds at position `k` if it holds at `j ≤ k` and `A` holds in between -/
theorem inv_range {P : Inst G → Prop} {A : HOp → R Bytes → Prop}
    (hstep : ∀ i op, P i → A op (stepH i op).2 → P (stepH i op).1)
    (i : Inst G) (ops : List HOp) {j k : Nat} (hjk : j ≤ k) (hk : k ≤ ops.length)
    (hP : P (stateAt i ops j))
    (hA : ∀ l op o, j ≤ l → l < k → ops[l]? = some op → (runHist i ops).2[l]? = some o → A op o) :
    P (stateAt i ops k) := by
  obtain ⟨d, rfl⟩ := Nat.exists_eq_add_of_le hjk
  induction d with
  | zero => exact hP
  | succ d ih =>
    have hlt : j + d < ops.length := by omega
    have hop : ops[j + d]? = some ops[j + d] := List.getElem?_eq_getElem hlt
    rw [show j + (d + 1) = (j + d) + 1 from rfl, stateAt_succ hop]
    apply hstep
    · exact ih (by omega) (by omega) (fun l op o h1 h2 => hA l op o h1 (by omega))
    · exact hA (j + d) _ _ (by omega) (by omega) hop (out_get hop)

/-- an invariant preserved by every step holds everywhere -/
theorem inv_all {P : Inst G → Prop} (hstep : ∀ i op, P i → P (stepH i op).1)
    (i : Inst G) (ops : List HOp) (hP : P i) (k : Nat) : P (stateAt i ops k) := by
  unfold stateAt
  generalize ops.take k = l
  induction l generalizing i with
  | nil => exact hP
  | cons a rest ih => exact ih _ (hstep i a hP)

/-! ### the four operations, one at a time -/

theorem bind_ok {α β : Type} {x : R α} {f : α → R β} {b : β} (h : (x >>= f) = .ok b) :
    ∃ a, x = .ok a ∧ f a = .ok b := by
  cases x with
  | error e => simp [bind, Except.bind] at h
  | ok a => exact ⟨a, rfl, h⟩

theorem start_of_started {i : Inst G} (h : i.started = true) :
    i.start = (i, .error .OnlyCallStartOnce) := by
  simp [Inst.start, h]

/-- what `start()` does to the fields, whatever the group does -/
theorem start_frame (i : Inst G) :
    i.start.1.started = true ∧ i.start.1.finished = i.finished ∧ i.start.1.side = i.side ∧
    i.start.1.params = i.params ∧ i.start.1.pw = i.pw ∧ i.start.1.idA = i.idA ∧
    i.start.1.idB = i.idB ∧ i.start.1.pwScalar = i.pwScalar ∧ i.start.1.inbound = i.inbound := by
  unfold Inst.start
  simp only []
  split
  · simp_all
  · split
    · simp
    · split <;> simp

theorem finish_of_finished {i : Inst G} (msg : Bytes) (h : i.finished = true) :
    i.finish msg = (i, .error .OnlyCallFinishOnce) := by
  simp [Inst.finish, h]

/-- `finish()` on an instance that has not been finished: the guard is passed -/
theorem finish_of_unfinished {i : Inst G} (msg : Bytes) (h : i.finished = false) :
    (i.finish msg).2 =
      match extractMessage i.side msg with
      | .error e => .error e
      | .ok inb => ({ i with finished := true, inbound := some inb } : Inst G).finishKey inb := by
  unfold Inst.finish
  simp only [h, Bool.false_eq_true, if_false]
  split <;> simp_all

/-- what `finish()` does to the fields, whatever the group does -/
theorem finish_frame (i : Inst G) (msg : Bytes) :
    (i.finish msg).1.finished = true ∧ (i.finish msg).1.started = i.started ∧
    (i.finish msg).1.xyScalar = i.xyScalar ∧ (i.finish msg).1.outbound = i.outbound ∧
    (i.finish msg).1.side = i.side ∧ (i.finish msg).1.params = i.params ∧
    (i.finish msg).1.pw = i.pw ∧ (i.finish msg).1.idA = i.idA ∧ (i.finish msg).1.idB = i.idB ∧
    (i.finish msg).1.pwScalar = i.pwScalar := by
  unfold Inst.finish
  simp only []
  split
  · simp_all
  · split <;> simp

theorem finishKey_not_ok_of_no_outbound {i : Inst G} (inb : Bytes) (h : i.outbound = none) (key : Bytes) :
    i.finishKey inb ≠ .ok key := by
  intro hk
  unfold Inst.finishKey at hk
  obtain ⟨e, _, hk⟩ := bind_ok hk
  simp [h, raise, bind, Except.bind] at hk

/-- `finish()` without an outbound message (i.e. before a successful `start()`) never returns a key:
either the guard, or `_extract_message`, or `bytes_to_element`, or the missing attribute raises -/
theorem finish_not_ok_of_no_outbound {i : Inst G} (msg : Bytes) (h : i.outbound = none) (key : Bytes) :
    (i.finish msg).2 ≠ .ok key := by
  unfold Inst.finish
  simp only []
  split
  · simp
  · split
    · simp
    · exact finishKey_not_ok_of_no_outbound _ (by simpa using h) key

theorem serialize_of_unstarted {i : Inst G} (h : i.started = false) :
    i.serialize = .error .SerializedTooEarly := by
  simp [Inst.serialize, h]

theorem serialize_ok_started {i : Inst G} {s : Bytes} (h : i.serialize = .ok s) : i.started = true := by
  cases hs : i.started with
  | true => rfl
  | false => rw [serialize_of_unstarted hs] at h; cases h

/-- shape of a successfully restored instance (common tail) -/
theorem restoreTail_ok {i j : Inst G} {d : Json.Dict} (h : restoreTail i d = .ok j) :
    ∃ xb x ob, getHex d k_xy_scalar = .ok xb ∧ G.scalarDec xb = .ok x ∧
      j = { i with started := true, xyScalar := some x, outbound := some ob } := by
  unfold restoreTail at h
  obtain ⟨hp, _, h⟩ := bind_ok h
  obtain ⟨mine, _, h⟩ := bind_ok h
  split at h
  · cases h
  · obtain ⟨xb, h1, h⟩ := bind_ok h
    obtain ⟨x, h2, h⟩ := bind_ok h
    obtain ⟨ob, _, h⟩ := bind_ok h
    simp only [pure, Except.pure, Except.ok.injEq] at h
    exact ⟨xb, x, ob, h1, h2, h.symm⟩

/-- shape of a successfully restored instance -/
theorem fromDict_ok {side : Side} {d : Json.Dict} {params : Params G} {j : Inst G}
    (h : fromDict side d params = .ok j) :
    ∃ pw idA idB xb x ob, getHex d k_password = .ok pw ∧ getHex d k_xy_scalar = .ok xb ∧
      G.scalarDec xb = .ok x ∧
      (side = .S → getHex d k_idS = .ok idA ∧ idB = []) ∧
      (side ≠ .S → getHex d k_idA = .ok idA ∧ getHex d k_idB = .ok idB) ∧
      j = { (Inst.new side pw idA idB params ⟨[]⟩ : Inst G) with
              started := true, xyScalar := some x, outbound := some ob } := by
  cases side with
  | S =>
    simp only [fromDict] at h
    obtain ⟨sd, _, h⟩ := bind_ok h
    split at h
    · cases h
    · obtain ⟨pw, h1, h⟩ := bind_ok h
      obtain ⟨idS, h2, h⟩ := bind_ok h
      obtain ⟨xb, x, ob, h3, h4, rfl⟩ := restoreTail_ok h
      refine ⟨pw, idS, [], xb, x, ob, h1, h3, h4, fun _ => ⟨h2, rfl⟩, ?_, rfl⟩
      intro hn; exact absurd rfl hn
  | A =>
    simp only [fromDict] at h
    obtain ⟨pw, h1, h⟩ := bind_ok h
    obtain ⟨idA, h2, h⟩ := bind_ok h
    obtain ⟨idB, h2', h⟩ := bind_ok h
    obtain ⟨sd, _, h⟩ := bind_ok h
    split at h
    · cases h
    · obtain ⟨xb, x, ob, h3, h4, rfl⟩ := restoreTail_ok h
      refine ⟨pw, idA, idB, xb, x, ob, h1, h3, h4, ?_, fun _ => ⟨h2, h2'⟩, rfl⟩
      intro hn; cases hn
  | B =>
    simp only [fromDict] at h
    obtain ⟨pw, h1, h⟩ := bind_ok h
    obtain ⟨idA, h2, h⟩ := bind_ok h
    obtain ⟨idB, h2', h⟩ := bind_ok h
    obtain ⟨sd, _, h⟩ := bind_ok h
    split at h
    · cases h
    · obtain ⟨xb, x, ob, h3, h4, rfl⟩ := restoreTail_ok h
      refine ⟨pw, idA, idB, xb, x, ob, h1, h3, h4, ?_, fun _ => ⟨h2, h2'⟩, rfl⟩
      intro hn; cases hn

theorem fromSerialized_ok_dict {side : Side} {data : Bytes} {params : Params G} {j : Inst G}
    (h : fromSerialized side data params = .ok j) :
    ∃ d, Json.parse data = some d ∧ fromDict side d params = .ok j := by
  unfold fromSerialized at h
  split at h
  · cases h
  · split at h
    · cases h
    · exact ⟨_, by assumption, h⟩

/-- **a restored instance is created started, unfinished, with scalar and outbound message set** -/
theorem fromSerialized_ok_flags {side : Side} {data : Bytes} {params : Params G} {j : Inst G}
    (h : fromSerialized side data params = .ok j) :
    j.started = true ∧ j.finished = false ∧ j.inbound = none ∧ j.side = side ∧ j.params = params ∧
    (∃ x, j.xyScalar = some x) ∧ (∃ ob, j.outbound = some ob) := by
  obtain ⟨d, _, hd⟩ := fromSerialized_ok_dict h
  obtain ⟨pw, idA, idB, xb, x, ob, _, _, _, _, _, rfl⟩ := fromDict_ok hd
  exact ⟨rfl, rfl, rfl, rfl, rfl, ⟨x, rfl⟩, ⟨ob, rfl⟩⟩

/-- the two outcomes of the history operation `restore` -/
theorem restore_cases (i : Inst G) :
    (∃ e, stepH i .restore = (i, .error e)) ∨
    (∃ data j, i.serialize = .ok data ∧ fromSerialized i.side data i.params = .ok j ∧
      stepH i .restore = (j, .ok data)) := by
  simp only [stepH]
  cases hs : i.serialize with
  | error e => exact .inl ⟨e, rfl⟩
  | ok data =>
    dsimp only
    cases hf : fromSerialized i.side data i.params with
    | error e => exact .inl ⟨e, rfl⟩
    | ok j => exact .inr ⟨data, j, rfl, hf, rfl⟩

theorem restore_ok {i : Inst G} {data : Bytes} (h : (stepH i .restore).2 = .ok data) :
    i.serialize = .ok data ∧ fromSerialized i.side data i.params = .ok (stepH i .restore).1 := by
  rcases restore_cases i with ⟨e, he⟩ | ⟨d, j, h1, h2, h3⟩
  · rw [he] at h; cases h
  · rw [h3] at h ⊢
    simp only [Except.ok.injEq] at h
    subst h
    exact ⟨h1, h2⟩

theorem restore_not_ok {i : Inst G} (h : ∀ data, (stepH i .restore).2 ≠ .ok data) :
    (stepH i .restore).1 = i := by
  rcases restore_cases i with ⟨e, he⟩ | ⟨d, j, _, _, h3⟩
  · rw [he]
  · exact absurd (by rw [h3]) (h d)

/-- **`finished` is not serialised: a successful `restore` yields a started, unfinished instance
without inbound message** (so the finish-once guard of the *new* object is open again) -/
theorem restore_resets_finished_step {i : Inst G} {data : Bytes}
    (h : (stepH i .restore).2 = .ok data) :
    (stepH i .restore).1.finished = false ∧ (stepH i .restore).1.started = true ∧
    (stepH i .restore).1.inbound = none := by
  obtain ⟨h1, h2, h3, _⟩ := fromSerialized_ok_flags (restore_ok h).2
  exact ⟨h2, h1, h3⟩

/-! ### (a) `start` at most once -/

theorem lt_of_get {α : Type} {l : List α} {k : Nat} {a : α} (h : l[k]? = some a) : k < l.length := by
  rcases Nat.lt_or_ge k l.length with h' | h'
  · exact h'
  · rw [List.getElem?_eq_none h'] at h; cases h

/-- the output at position `k` -/
theorem out_eq {i : Inst G} {ops : List HOp} {k : Nat} {op : HOp} {o : R Bytes}
    (hop : ops[k]? = some op) (ho : (runHist i ops).2[k]? = some o) :
    o = (stepH (stateAt i ops k) op).2 := by
  rw [out_get hop] at ho
  exact (Option.some.inj ho).symm

theorem step_started_mono {i : Inst G} (op : HOp) (h : i.started = true) :
    (stepH i op).1.started = true := by
  cases op with
  | start => exact (start_frame i).1
  | finish msg => rw [stepH_finish, (finish_frame i msg).2.1]; exact h
  | serialize => exact h
  | restore =>
    rcases restore_cases i with ⟨e, he⟩ | ⟨d, j, _, h2, h3⟩
    · rw [he]; exact h
    · rw [h3]; exact (fromSerialized_ok_flags h2).1

theorem started_from {i : Inst G} {ops : List HOp} {j k : Nat}
    (hj : (stateAt i ops j).started = true) (hjk : j ≤ k) (hk : k ≤ ops.length) :
    (stateAt i ops k).started = true :=
  inv_range (P := fun i => i.started = true) (A := fun _ _ => True)
    (fun _ op h _ => step_started_mono op h) i ops hjk hk hj (fun _ _ _ _ _ _ _ => trivial)

/-- **`start` at most once.**  For every initial instance and every history:
1. every `start` after an earlier `start` (successful or not) returns `OnlyCallStartOnce`;
2. at most one `start` returns `.ok`;
3. every `start` after a successful `restore` returns `OnlyCallStartOnce`. -/
theorem start_once (i : Inst G) (ops : List HOp) :
    (∀ j k : Nat, j < k → ops[j]? = some .start → ops[k]? = some .start →
      (runHist i ops).2[k]? = some (.error .OnlyCallStartOnce)) ∧
    (∀ (j k : Nat) (b b' : Bytes), ops[j]? = some .start → ops[k]? = some .start →
      (runHist i ops).2[j]? = some (.ok b) → (runHist i ops).2[k]? = some (.ok b') → j = k) ∧
    (∀ (j k : Nat) (d : Bytes), j < k → ops[j]? = some .restore → (runHist i ops).2[j]? = some (.ok d) →
      ops[k]? = some .start → (runHist i ops).2[k]? = some (.error .OnlyCallStartOnce)) := by
  have key : ∀ j k : Nat, j < k → (stateAt i ops (j + 1)).started = true → ops[k]? = some .start →
      (runHist i ops).2[k]? = some (.error .OnlyCallStartOnce) := by
    intro j k hjk hs hk
    have := started_from hs (show j + 1 ≤ k by omega) (Nat.le_of_lt (lt_of_get hk))
    rw [out_get hk]
    simp only [stepH, start_of_started this]
  have h1 : ∀ j k : Nat, j < k → ops[j]? = some .start → ops[k]? = some .start →
      (runHist i ops).2[k]? = some (.error .OnlyCallStartOnce) := by
    intro j k hjk hj hk
    refine key j k hjk ?_ hk
    rw [stateAt_succ hj]
    exact (start_frame _).1
  refine ⟨h1, ?_, ?_⟩
  · intro j k b b' hj hk hoj hok
    rcases Nat.lt_trichotomy j k with h | h | h
    · rw [h1 j k h hj hk] at hok; cases hok
    · exact h
    · rw [h1 k j h hk hj] at hoj; cases hoj
  · intro j k d hjk hj hoj hk
    refine key j k hjk ?_ hk
    rw [stateAt_succ hj]
    have := out_eq hj hoj
    exact (restore_resets_finished_step this.symm).2.1

/-! ### (b) `finish` at most once per instance object -/

theorem step_finished_mono {i : Inst G} (op : HOp) (h : i.finished = true)
    (hA : op = .restore → ∀ d, (stepH i op).2 ≠ .ok d) : (stepH i op).1.finished = true := by
  cases op with
  | start => rw [stepH_start, (start_frame i).2.1]; exact h
  | finish msg => exact (finish_frame i msg).1
  | serialize => exact h
  | restore => rw [restore_not_ok (hA rfl)]; exact h

/-- **`finish` at most once per instance object.**  After any `finish` call (succeeding or failing,
e.g. with `OffSides`, a decoding error or `ReflectionThwarted`), every later `finish` on the same
object — i.e. with no successful `restore` in between — returns `OnlyCallFinishOnce`. -/
theorem finish_once (i : Inst G) (ops : List HOp) (j k : Nat) (m m' : Bytes) (hjk : j < k)
    (hj : ops[j]? = some (.finish m)) (hk : ops[k]? = some (.finish m'))
    (hno : ∀ (l : Nat) (d : Bytes), j < l → l < k → ops[l]? = some .restore → (runHist i ops).2[l]? ≠ some (.ok d)) :
    (runHist i ops).2[k]? = some (.error .OnlyCallFinishOnce) := by
  have hfin : (stateAt i ops k).finished = true := by
    refine inv_range (P := fun i => i.finished = true)
      (A := fun op o => op = .restore → ∀ d, o ≠ .ok d)
      (fun i op h hA => step_finished_mono op h hA) i ops (show j + 1 ≤ k by omega)
      (Nat.le_of_lt (lt_of_get hk)) ?_ ?_
    · rw [stateAt_succ hj]; exact (finish_frame _ m).1
    · intro l op o h1 h2 hop ho hr d hd
      subst hr; subst hd
      exact hno l d (by omega) h2 hop ho
  rw [out_get hk]
  simp only [stepH, finish_of_finished m' hfin]

/-- at most one `finish` returns a key on one instance object -/
theorem finish_ok_once (i : Inst G) (ops : List HOp) (j k : Nat) (m m' key key' : Bytes)
    (hj : ops[j]? = some (.finish m)) (hk : ops[k]? = some (.finish m'))
    (hoj : (runHist i ops).2[j]? = some (.ok key)) (hok : (runHist i ops).2[k]? = some (.ok key'))
    (hno : ∀ (l : Nat) (d : Bytes), ops[l]? = some .restore → (runHist i ops).2[l]? ≠ some (.ok d)) : j = k := by
  rcases Nat.lt_trichotomy j k with h | h | h
  · rw [finish_once i ops j k m m' h hj hk (fun l d _ _ => hno l d)] at hok; cases hok
  · exact h
  · rw [finish_once i ops k j m' m h hk hj (fun l d _ _ => hno l d)] at hoj; cases hoj

/-- **`finished` is not part of the serialised state**: right after a successful `restore` the
instance in use is started, unfinished and has no inbound message; a `finish` issued next is not
stopped by the finish-once guard but runs `_extract_message` and the key computation again. -/
theorem restore_resets_finished (i : Inst G) (ops : List HOp) (k : Nat) (d : Bytes)
    (hk : ops[k]? = some .restore) (ho : (runHist i ops).2[k]? = some (.ok d)) :
    (stateAt i ops (k + 1)).finished = false ∧ (stateAt i ops (k + 1)).started = true ∧
    (stateAt i ops (k + 1)).inbound = none ∧
    ∀ m, ops[k + 1]? = some (.finish m) →
      (runHist i ops).2[k + 1]? = some
        (match extractMessage (stateAt i ops (k + 1)).side m with
         | .error e => .error e
         | .ok inb => ({ stateAt i ops (k + 1) with finished := true, inbound := some inb } : Inst G).finishKey inb) := by
  have h := restore_resets_finished_step (out_eq hk ho).symm
  rw [← stateAt_succ hk] at h
  refine ⟨h.1, h.2.1, h.2.2, ?_⟩
  intro m hm
  rw [out_get hm]
  simp only [stepH, finish_of_unfinished m h.1]

/-! ### (c) early calls -/

theorem step_unstarted {i : Inst G} {op : HOp} (hop : op ≠ .start)
    (h : i.started = false ∧ i.outbound = none) :
    (stepH i op).1.started = false ∧ (stepH i op).1.outbound = none := by
  cases op with
  | start => exact absurd rfl hop
  | finish msg =>
    have := finish_frame i msg
    exact ⟨by rw [stepH_finish, this.2.1]; exact h.1,
           by rw [stepH_finish, this.2.2.2.1]; exact h.2⟩
  | serialize => exact h
  | restore =>
    rcases restore_cases i with ⟨e, he⟩ | ⟨d, j, h1, _, _⟩
    · rw [he]; exact h
    · have := serialize_ok_started h1
      rw [h.1] at this; cases this

theorem unstarted_until {i : Inst G} {ops : List HOp} {k : Nat}
    (hi : i.started = false ∧ i.outbound = none) (hk : k ≤ ops.length)
    (hno : ∀ j : Nat, j < k → ops[j]? ≠ some .start) :
    (stateAt i ops k).started = false ∧ (stateAt i ops k).outbound = none := by
  refine inv_range (P := fun i => i.started = false ∧ i.outbound = none)
    (A := fun op _ => op ≠ .start) (fun i op h hA => step_unstarted hA h) i ops (Nat.zero_le k) hk hi ?_
  intro l op o _ h2 hop _ he
  subst he
  exact hno l h2 hop

/-- **calls before `start`** (any instance that is not started and has no outbound message, in
particular a freshly constructed one): as long as no `start` has been issued,
`serialize` — and hence `restore` — returns `SerializedTooEarly`, and `finish` never returns a key. -/
theorem early_calls_gen (i : Inst G) (hi : i.started = false ∧ i.outbound = none) (ops : List HOp)
    (k : Nat) (hno : ∀ j : Nat, j < k → ops[j]? ≠ some .start) :
    (ops[k]? = some .serialize → (runHist i ops).2[k]? = some (.error .SerializedTooEarly)) ∧
    (ops[k]? = some .restore → (runHist i ops).2[k]? = some (.error .SerializedTooEarly)) ∧
    (∀ m, ops[k]? = some (.finish m) → ∀ key, (runHist i ops).2[k]? ≠ some (.ok key)) := by
  refine ⟨?_, ?_, ?_⟩
  · intro hk
    have hs := unstarted_until hi (Nat.le_of_lt (lt_of_get hk)) hno
    rw [out_get hk]
    simp only [stepH, serialize_of_unstarted hs.1]
  · intro hk
    have hs := unstarted_until hi (Nat.le_of_lt (lt_of_get hk)) hno
    rw [out_get hk]
    simp only [stepH, serialize_of_unstarted hs.1]
  · intro m hk key
    have hs := unstarted_until hi (Nat.le_of_lt (lt_of_get hk)) hno
    rw [out_get hk]
    intro h
    exact finish_not_ok_of_no_outbound m hs.2 key (Option.some.inj h)

section Fresh
variable (side : Side) (pw idA idB : Bytes) (params : Params G) (ent : Entropy)

/-- **`serialize` (and `restore`) before any `start` returns `SerializedTooEarly`** -/
theorem early_calls (ops : List HOp) (k : Nat) (hno : ∀ j : Nat, j < k → ops[j]? ≠ some .start) :
    (ops[k]? = some .serialize →
      (runHist (Inst.new side pw idA idB params ent) ops).2[k]? = some (.error .SerializedTooEarly)) ∧
    (ops[k]? = some .restore →
      (runHist (Inst.new side pw idA idB params ent) ops).2[k]? = some (.error .SerializedTooEarly)) :=
  ⟨(early_calls_gen _ ⟨rfl, rfl⟩ ops k hno).1, (early_calls_gen _ ⟨rfl, rfl⟩ ops k hno).2.1⟩

/-- **`finish` before `start` never returns `.ok`**: the finish-once guard, `_extract_message`,
`bytes_to_element` or — when all of these pass — the missing `outbound_message` attribute raises. -/
theorem finish_before_start_not_ok (ops : List HOp) (k : Nat) (m : Bytes)
    (hno : ∀ j : Nat, j < k → ops[j]? ≠ some .start) (hk : ops[k]? = some (.finish m)) (key : Bytes) :
    (runHist (Inst.new side pw idA idB params ent) ops).2[k]? ≠ some (.ok key) :=
  (early_calls_gen _ ⟨rfl, rfl⟩ ops k hno).2.2 m hk key

end Fresh

/-! ### (d) the secret scalar is constant -/

/-- **every step preserves `xyScalar`**, except a `start` on an unstarted instance (which sets it)
and a successful `restore` (which sets it to whatever the blob decodes to) -/
theorem step_preserves_xyScalar {i : Inst G} {op : HOp} (h1 : op = .start → i.started = true)
    (h2 : op = .restore → ∀ d, (stepH i op).2 ≠ .ok d) : (stepH i op).1.xyScalar = i.xyScalar := by
  cases op with
  | start => simp only [stepH, start_of_started (h1 rfl)]
  | finish msg => exact (finish_frame i msg).2.2.1
  | serialize => rfl
  | restore => rw [restore_not_ok (h2 rfl)]

/-- reachable instances: an unstarted instance has no scalar yet -/
def NoScalarYet (i : Inst G) : Prop := i.started = false → i.xyScalar = none

theorem step_noScalarYet {i : Inst G} (op : HOp) (h : NoScalarYet i) : NoScalarYet (stepH i op).1 := by
  intro hs
  cases hst : i.started with
  | true => rw [step_started_mono op hst] at hs; cases hs
  | false =>
    cases op with
    | start => rw [stepH_start, (start_frame i).1] at hs; cases hs
    | finish msg => rw [stepH_finish, (finish_frame i msg).2.2.1]; exact h hst
    | serialize => exact h hst
    | restore =>
      rcases restore_cases i with ⟨e, he⟩ | ⟨d, j, h1, _, _⟩
      · rw [he]; exact h hst
      · have := serialize_ok_started h1
        rw [hst] at this; cases this

/-- **once set, the scalar never changes on the same instance object** (every group `G`) -/
theorem scalar_constant_no_restore (i : Inst G) (hi : NoScalarYet i) (ops : List HOp) {j k : Nat} {x : Int}
    (hjk : j ≤ k) (hk : k ≤ ops.length) (hx : (stateAt i ops j).xyScalar = some x)
    (hno : ∀ (l : Nat) (d : Bytes), j ≤ l → l < k → ops[l]? = some .restore → (runHist i ops).2[l]? ≠ some (.ok d)) :
    (stateAt i ops k).xyScalar = some x := by
  have hstarted : (stateAt i ops j).started = true := by
    have := inv_all (P := NoScalarYet) (fun i op h => step_noScalarYet op h) i ops hi j
    cases hs : (stateAt i ops j).started with
    | true => rfl
    | false => rw [this hs] at hx; cases hx
  refine (inv_range (P := fun i => i.started = true ∧ i.xyScalar = some x)
    (A := fun op o => op = .restore → ∀ d, o ≠ .ok d) ?_ i ops hjk hk ⟨hstarted, hx⟩ ?_).2
  · intro i op h hA
    exact ⟨step_started_mono op h.1, by rw [step_preserves_xyScalar (fun _ => h.1) hA]; exact h.2⟩
  · intro l op o h1 h2 hop ho hr d hd
    subst hr; subst hd
    exact hno l d h1 h2 hop ho

/-- **a successful `restore` reproduces the scalar, the password and the identities** when the
scalar codec round-trips on the instance's scalar (the JSON and hex layers are transparent by
`serialize_fields`) -/
theorem restore_roundtrip (hsc : ScalarEncBytes G) {i : Inst G}
    (hrt : ∀ x b, i.xyScalar = some x → G.scalarEnc x = .ok b → G.scalarDec b = .ok x)
    (hA : IsBytes i.idA) (hB : IsBytes i.idB) (hpw : IsBytes i.pw) {data : Bytes}
    (h : (stepH i .restore).2 = .ok data) :
    (stepH i .restore).1.xyScalar = i.xyScalar ∧ (stepH i .restore).1.pw = i.pw ∧
    (stepH i .restore).1.idA = i.idA ∧
    ((stepH i .restore).1.idB = i.idB ∨ (stepH i .restore).1.idB = []) ∧
    (stepH i .restore).1.side = i.side ∧ (stepH i .restore).1.params = i.params ∧
    (stepH i .restore).1.pwScalar = G.p2s i.pw := by
  obtain ⟨hs, hf⟩ := restore_ok h
  obtain ⟨d, hp, x, xs, _, _, hx, hxs, _, _, _, _, _, _, hparse, _, _, gpw, gxy, gS, gAB⟩ :=
    serialize_fields hs hA hB hpw hsc
  obtain ⟨d', hparse', hd'⟩ := fromSerialized_ok_dict hf
  rw [hparse] at hparse'
  cases Option.some.inj hparse'
  obtain ⟨pw', idA', idB', xb, x', ob, epw, exy, edec, eS, eAB, ej⟩ := fromDict_ok hd'
  rw [gpw] at epw; cases epw
  rw [gxy] at exy; cases exy
  rw [hrt x xs hx hxs] at edec; cases edec
  rw [ej]
  by_cases hside : i.side = .S
  · obtain ⟨e1, e2⟩ := eS hside
    rw [gS hside] at e1; cases e1
    exact ⟨hx.symm, rfl, rfl, .inr e2, rfl, rfl, rfl⟩
  · obtain ⟨e1, e2⟩ := eAB hside
    rw [(gAB hside).1] at e1; cases e1
    rw [(gAB hside).2] at e2; cases e2
    exact ⟨hx.symm, rfl, rfl, .inl rfl, rfl, rfl, rfl⟩

/-- where a scalar can come from in `start()` -/
theorem start_xyScalar (i : Inst G) :
    i.start.1.xyScalar = i.xyScalar ∨
    ∃ x ent', G.randomScalar i.entropy = .ok (x, ent') ∧ i.start.1.xyScalar = some x := by
  unfold Inst.start
  simp only []
  split
  · exact .inl rfl
  · split
    · exact .inl rfl
    · rename_i x ent' heq
      split
      · exact .inr ⟨x, ent', heq, rfl⟩
      · exact .inr ⟨x, ent', heq, rfl⟩

/-- the invariants carried along a history for `scalar_constant` -/
def BytesFields (i : Inst G) : Prop := IsBytes i.pw ∧ IsBytes i.idA ∧ IsBytes i.idB

/-- the instance's scalar, if any, satisfies `Good` (e.g. `0 ≤ x < q`) -/
def GoodScalar (Good : Int → Prop) (i : Inst G) : Prop := ∀ x, i.xyScalar = some x → Good x

section Good
variable (hsc : ScalarEncBytes G) {Good : Int → Prop}
  (hrand : ∀ ent x ent', G.randomScalar ent = .ok (x, ent') → Good x)
  (hrt : ∀ x b, Good x → G.scalarEnc x = .ok b → G.scalarDec b = .ok x)
include hsc hrt

theorem step_bytesFields {i : Inst G} (op : HOp) (hg : GoodScalar Good i) (h : BytesFields i) :
    BytesFields (stepH i op).1 := by
  obtain ⟨hpw, hA, hB⟩ := h
  cases op with
  | start =>
    have := start_frame i
    exact ⟨by rw [stepH_start, this.2.2.2.2.1]; exact hpw,
           by rw [stepH_start, this.2.2.2.2.2.1]; exact hA,
           by rw [stepH_start, this.2.2.2.2.2.2.1]; exact hB⟩
  | finish msg =>
    have := finish_frame i msg
    exact ⟨by rw [stepH_finish, this.2.2.2.2.2.2.1]; exact hpw,
           by rw [stepH_finish, this.2.2.2.2.2.2.2.1]; exact hA,
           by rw [stepH_finish, this.2.2.2.2.2.2.2.2.1]; exact hB⟩
  | serialize => exact ⟨hpw, hA, hB⟩
  | restore =>
    rcases restore_cases i with ⟨e, he⟩ | ⟨d, j, _, _, h3⟩
    · rw [he]; exact ⟨hpw, hA, hB⟩
    · have hr := restore_roundtrip hsc (fun x b hx => hrt x b (hg x hx)) hA hB hpw (data := d)
        (by rw [h3])
      refine ⟨by rw [hr.2.1]; exact hpw, by rw [hr.2.2.1]; exact hA, ?_⟩
      rcases hr.2.2.2.1 with e | e <;> rw [e]
      · exact hB
      · intro x hx; cases hx

/-- one step keeps a scalar that is already set, restores included -/
theorem step_keeps_scalar {i : Inst G} (op : HOp) (hg : GoodScalar Good i) (hb : BytesFields i)
    (hst : i.started = true) : (stepH i op).1.xyScalar = i.xyScalar := by
  cases op with
  | restore =>
    rcases restore_cases i with ⟨e, he⟩ | ⟨d, j, _, _, h3⟩
    · rw [he]
    · exact (restore_roundtrip hsc (fun x b hx => hrt x b (hg x hx)) hb.2.1 hb.2.2 hb.1 (data := d)
        (by rw [h3])).1
  | start => exact step_preserves_xyScalar (fun _ => hst) (fun h => by cases h)
  | finish msg => exact step_preserves_xyScalar (fun h => by cases h) (fun h => by cases h)
  | serialize => rfl

include hrand in
theorem step_goodScalar {i : Inst G} (op : HOp) (hg : GoodScalar Good i) (hb : BytesFields i) :
    GoodScalar Good (stepH i op).1 := by
  intro x hx
  cases op with
  | start =>
    rcases start_xyScalar i with h | ⟨x', ent', h1, h2⟩
    · rw [stepH_start, h] at hx; exact hg x hx
    · rw [stepH_start, h2] at hx; cases hx; exact hrand _ _ _ h1
  | finish msg => rw [stepH_finish, (finish_frame i msg).2.2.1] at hx; exact hg x hx
  | serialize => exact hg x hx
  | restore =>
    rcases restore_cases i with ⟨e, he⟩ | ⟨d, j, _, _, h3⟩
    · rw [he] at hx; exact hg x hx
    · rw [(restore_roundtrip hsc (fun x b hx => hrt x b (hg x hx)) hb.2.1 hb.2.2 hb.1 (data := d)
        (by rw [h3])).1] at hx
      exact hg x hx

include hrand in
/-- **the secret scalar is constant over the whole history, restores included**: for an initial
instance whose password and identities are byte strings, when the group's scalar encoder returns
byte strings, `random_scalar` returns `Good` scalars (e.g. `0 ≤ x < q`) and
`scalarDec ∘ scalarEnc = id` on `Good` scalars -/
theorem scalar_constant_good (i : Inst G) (hi : NoScalarYet i) (hb : BytesFields i)
    (hg : GoodScalar Good i) (ops : List HOp) {j k : Nat} {x : Int}
    (hjk : j ≤ k) (hk : k ≤ ops.length) (hx : (stateAt i ops j).xyScalar = some x) :
    (stateAt i ops k).xyScalar = some x := by
  have hinv := inv_all (P := fun i => NoScalarYet i ∧ BytesFields i ∧ GoodScalar Good i)
    (fun i op h => ⟨step_noScalarYet op h.1, step_bytesFields hsc hrt op h.2.2 h.2.1,
      step_goodScalar hsc hrand hrt op h.2.2 h.2.1⟩) i ops ⟨hi, hb, hg⟩ j
  have hstarted : (stateAt i ops j).started = true := by
    cases hs : (stateAt i ops j).started with
    | true => rfl
    | false => rw [hinv.1 hs] at hx; cases hx
  refine (inv_range
    (P := fun i => (i.started = true ∧ BytesFields i ∧ GoodScalar Good i) ∧ i.xyScalar = some x)
    (A := fun _ _ => True) ?_ i ops hjk hk ⟨⟨hstarted, hinv.2⟩, hx⟩ (fun _ _ _ _ _ _ _ => trivial)).2
  intro i op h _
  exact ⟨⟨step_started_mono op h.1.1, step_bytesFields hsc hrt op h.1.2.2 h.1.2.1,
      step_goodScalar hsc hrand hrt op h.1.2.2 h.1.2.1⟩,
    by rw [step_keeps_scalar hsc hrt op h.1.2.2 h.1.2.1 h.1.1]; exact h.2⟩

end Good

/-- the same with an unconditional scalar round trip -/
theorem scalar_constant_gen (hsc : ScalarEncBytes G)
    (hrt : ∀ x b, G.scalarEnc x = .ok b → G.scalarDec b = .ok x)
    (i : Inst G) (hi : NoScalarYet i) (hb : BytesFields i) (ops : List HOp) {j k : Nat} {x : Int}
    (hjk : j ≤ k) (hk : k ≤ ops.length) (hx : (stateAt i ops j).xyScalar = some x) :
    (stateAt i ops k).xyScalar = some x :=
  scalar_constant_good hsc (Good := fun _ => True) (fun _ _ _ _ => trivial) (fun x b _ => hrt x b)
    i hi hb (fun _ _ => trivial) ops hjk hk hx

/-- **C07 (d)** for a freshly constructed instance -/
theorem scalar_constant (hsc : ScalarEncBytes G)
    (hrt : ∀ x b, G.scalarEnc x = .ok b → G.scalarDec b = .ok x)
    (side : Side) (pw idA idB : Bytes) (params : Params G) (ent : Entropy)
    (hpw : IsBytes pw) (hA : IsBytes idA) (hB : IsBytes idB) (ops : List HOp) {j k : Nat} {x : Int}
    (hjk : j ≤ k) (hk : k ≤ ops.length)
    (hx : (stateAt (Inst.new side pw idA idB params ent) ops j).xyScalar = some x) :
    (stateAt (Inst.new side pw idA idB params ent) ops k).xyScalar = some x :=
  scalar_constant_gen hsc hrt _ (fun _ => rfl) ⟨hpw, hA, hB⟩ ops hjk hk hx

/-- **C07 (d)** for a freshly constructed instance, with the round trip only required on the
scalars `random_scalar` can return (this is the form that `GroupSpec.scalar_rt` /
`GroupSpec.random_range` provide, with `Good x := 0 ≤ x ∧ x < q`) -/
theorem scalar_constant_range (hsc : ScalarEncBytes G) {Good : Int → Prop}
    (hrand : ∀ ent x ent', G.randomScalar ent = .ok (x, ent') → Good x)
    (hrt : ∀ x b, Good x → G.scalarEnc x = .ok b → G.scalarDec b = .ok x)
    (side : Side) (pw idA idB : Bytes) (params : Params G) (ent : Entropy)
    (hpw : IsBytes pw) (hA : IsBytes idA) (hB : IsBytes idB) (ops : List HOp) {j k : Nat} {x : Int}
    (hjk : j ≤ k) (hk : k ≤ ops.length)
    (hx : (stateAt (Inst.new side pw idA idB params ent) ops j).xyScalar = some x) :
    (stateAt (Inst.new side pw idA idB params ent) ops k).xyScalar = some x :=
  scalar_constant_good hsc hrand hrt _ (fun _ => rfl) ⟨hpw, hA, hB⟩ (fun _ h => by cases h) ops hjk hk hx

/-! ### (e) refinement of the four-state specification automaton -/

/-- specification state: the pair of flags.
`⟨false,false⟩` fresh, `⟨true,false⟩` started, `⟨false,true⟩` finished-unstarted,
`⟨true,true⟩` started+finished -/
structure St where
  started : Bool
  finished : Bool
  deriving DecidableEq, Repr

def St.fresh : St := ⟨false, false⟩

/-- outcome classes -/
inductive Cls
  | ok | startOnce | finishOnce | tooEarly | other
  deriving DecidableEq, Repr

def classOf : R Bytes → Cls
  | .ok _ => .ok
  | .error .OnlyCallStartOnce => .startOnce
  | .error .OnlyCallFinishOnce => .finishOnce
  | .error .SerializedTooEarly => .tooEarly
  | .error _ => .other

def flags (i : Inst G) : St := ⟨i.started, i.finished⟩

/-- the outcome class the automaton *forces* (`none` = the operation is let through, its outcome
is `ok` or `other`) -/
def forced : St → HOp → Option Cls
  | st, .start => if st.started then some .startOnce else none
  | st, .finish _ => if st.finished then some .finishOnce else none
  | st, .serialize => if st.started then none else some .tooEarly
  | st, .restore => if st.started then none else some .tooEarly

/-- transition function (flags are set before the work, so the class only matters for `restore`,
which replaces the object by a started, unfinished one exactly when it succeeds) -/
def next : St → HOp → Cls → St
  | st, .start, _ => ⟨true, st.finished⟩
  | st, .finish _, _ => ⟨st.started, true⟩
  | st, .serialize, _ => st
  | st, .restore, c => if c = .ok then ⟨true, false⟩ else st

/-- the automaton's output relation: a forced class is produced exactly; otherwise the class is
`ok` or `other`, and `finish` in an unstarted state is never `ok` -/
def Allowed (st : St) (op : HOp) (c : Cls) : Prop :=
  match forced st op with
  | some c' => c = c'
  | none => (c = .ok ∨ c = .other) ∧ ((∃ m, op = .finish m) → st.started = false → c ≠ .ok)

/-- the part of `Allowed` that holds for every group, even one whose operations raise the
state-machine exceptions themselves -/
def AllowedWeak (st : St) (op : HOp) (c : Cls) : Prop :=
  (∀ c', forced st op = some c' → c = c') ∧ ((∃ m, op = .finish m) → st.started = false → c ≠ .ok)

def specRun : St → List (HOp × Cls) → St
  | st, [] => st
  | st, (op, c) :: rest => specRun (next st op c) rest

def Accepts (Rel : St → HOp → Cls → Prop) : St → List (HOp × Cls) → Prop
  | _, [] => True
  | st, (op, c) :: rest => Rel st op c ∧ Accepts Rel (next st op c) rest

/-- the observable trace of a history: operations paired with outcome classes -/
def trace (i : Inst G) (ops : List HOp) : List (HOp × Cls) := ops.zip ((runHist i ops).2.map classOf)

theorem trace_cons (i : Inst G) (op : HOp) (rest : List HOp) :
    trace i (op :: rest) = (op, classOf (stepH i op).2) :: trace (stepH i op).1 rest := by
  simp [trace, runHist]

/-- spec-level: under `Allowed`, the three state-machine classes occur exactly when forced -/
theorem allowed_exact {st : St} {op : HOp} {c : Cls} (h : Allowed st op c) :
    (c = .startOnce ↔ op = .start ∧ st.started = true) ∧
    (c = .finishOnce ↔ (∃ m, op = .finish m) ∧ st.finished = true) ∧
    (c = .tooEarly ↔ (op = .serialize ∨ op = .restore) ∧ st.started = false) := by
  obtain ⟨s, f⟩ := st
  cases op <;> cases s <;> cases f <;> cases c <;> simp_all [Allowed, forced]

/-! #### the model against the automaton, one step -/

/-- **the flag pair follows the automaton's transition function** (every group) -/
theorem step_flags (i : Inst G) (op : HOp) :
    flags (stepH i op).1 = next (flags i) op (classOf (stepH i op).2) := by
  cases op with
  | start =>
    have := start_frame i
    simp only [flags, next, stepH_start, this.1, this.2.1]
  | finish msg =>
    have := finish_frame i msg
    simp only [flags, next, stepH_finish, this.1, this.2.1]
  | serialize => rfl
  | restore =>
    rcases restore_cases i with ⟨e, he⟩ | ⟨d, j, _, h2, h3⟩
    · rw [he]
      have : classOf (Except.error e : R Bytes) ≠ .ok := by cases e <;> simp [classOf]
      simp [next, this]
    · rw [h3]
      obtain ⟨a, b, _⟩ := fromSerialized_ok_flags h2
      simp [next, classOf, flags, a, b]

/-- **forced outcomes are produced** (every group) -/
theorem step_forced (i : Inst G) (op : HOp) (c : Cls) (h : forced (flags i) op = some c) :
    classOf (stepH i op).2 = c := by
  cases op with
  | start =>
    cases hs : i.started with
    | false => simp [forced, flags, hs] at h
    | true =>
      simp only [forced, flags, hs, if_true, Option.some.injEq] at h
      simp [start_of_started hs, classOf, h]
  | finish msg =>
    cases hs : i.finished with
    | false => simp [forced, flags, hs] at h
    | true =>
      simp only [forced, flags, hs, if_true, Option.some.injEq] at h
      simp [finish_of_finished msg hs, classOf, h]
  | serialize =>
    cases hs : i.started with
    | true => simp [forced, flags, hs] at h
    | false =>
      simp only [forced, flags, hs, Bool.false_eq_true, if_false, Option.some.injEq] at h
      simp [serialize_of_unstarted hs, classOf, h]
  | restore =>
    cases hs : i.started with
    | true => simp [forced, flags, hs] at h
    | false =>
      simp only [forced, flags, hs, Bool.false_eq_true, if_false, Option.some.injEq] at h
      simp [stepH, serialize_of_unstarted hs, classOf, h]

/-- well-formedness carried along a history: an unstarted instance has no outbound message -/
def NoOutboundYet (i : Inst G) : Prop := i.started = false → i.outbound = none

theorem step_noOutboundYet {i : Inst G} (op : HOp) (h : NoOutboundYet i) :
    NoOutboundYet (stepH i op).1 := by
  intro hs
  cases hst : i.started with
  | true => rw [step_started_mono op hst] at hs; cases hs
  | false =>
    by_cases hop : op = .start
    · subst hop; rw [stepH_start, (start_frame i).1] at hs; cases hs
    · exact (step_unstarted hop ⟨hst, h hst⟩).2

theorem step_finish_unstarted_not_ok {i : Inst G} (hwf : NoOutboundYet i) {op : HOp}
    (hop : ∃ m, op = .finish m) (hs : (flags i).started = false) : classOf (stepH i op).2 ≠ .ok := by
  obtain ⟨m, rfl⟩ := hop
  intro hc
  cases hr : (i.finish m).2 with
  | error e => simp only [stepH_finish, hr] at hc; cases e <;> simp [classOf] at hc
  | ok key => exact finish_not_ok_of_no_outbound m (hwf hs) key hr

theorem step_allowedWeak (i : Inst G) (hwf : NoOutboundYet i) (op : HOp) :
    AllowedWeak (flags i) op (classOf (stepH i op).2) :=
  ⟨fun c h => step_forced i op c h, step_finish_unstarted_not_ok hwf⟩

/-! #### groups that do not raise the state-machine exceptions -/

/-- the three exceptions of the start/finish/serialize guards -/
def FsmErr (e : Err) : Prop :=
  e = .OnlyCallStartOnce ∨ e = .OnlyCallFinishOnce ∨ e = .SerializedTooEarly

/-- a computation that does not fail with a guard exception -/
def Quiet {α : Type} (x : R α) : Prop := ∀ e, x = .error e → ¬ FsmErr e

/-- the group operations do not raise `OnlyCallStartOnce`, `OnlyCallFinishOnce`,
`SerializedTooEarly` (any other failure is allowed).  In particular every group all of whose
failures are `Err.other _` is quiet (`GroupQuiet.of_other`). -/
structure GroupQuiet (G : Group) : Prop where
  add : ∀ a b, Quiet (G.add a b)
  smul : ∀ a n, Quiet (G.smul a n)
  dec : ∀ b, Quiet (G.dec b)
  scalarEnc : ∀ x, Quiet (G.scalarEnc x)
  scalarDec : ∀ b, Quiet (G.scalarDec b)
  arb : ∀ s, Quiet (G.arb s)
  randomScalar : ∀ e, Quiet (G.randomScalar e)

/-- all failures of `x` are non-SPAKE exceptions -/
def OnlyOther {α : Type} (x : R α) : Prop := ∀ e, x = .error e → ∃ p, e = .other p

theorem OnlyOther.quiet {α : Type} {x : R α} (h : OnlyOther x) : Quiet x := by
  intro e he hf
  obtain ⟨p, rfl⟩ := h e he
  rcases hf with h | h | h <;> cases h

theorem GroupQuiet.of_other
    (add : ∀ a b, OnlyOther (G.add a b)) (smul : ∀ a n, OnlyOther (G.smul a n))
    (dec : ∀ b, OnlyOther (G.dec b)) (scalarEnc : ∀ x, OnlyOther (G.scalarEnc x))
    (scalarDec : ∀ b, OnlyOther (G.scalarDec b)) (arb : ∀ s, OnlyOther (G.arb s))
    (randomScalar : ∀ e, OnlyOther (G.randomScalar e)) : GroupQuiet G :=
  ⟨fun a b => (add a b).quiet, fun a n => (smul a n).quiet, fun b => (dec b).quiet,
   fun x => (scalarEnc x).quiet, fun b => (scalarDec b).quiet, fun s => (arb s).quiet,
   fun e => (randomScalar e).quiet⟩

theorem Quiet.ok {α : Type} (a : α) : Quiet (Except.ok a : R α) := by intro e h; cases h
theorem Quiet.pure {α : Type} (a : α) : Quiet (Pure.pure a : R α) := Quiet.ok a
theorem Quiet.raise {α : Type} (p : PyExc) : Quiet (raise p : R α) := by
  intro e h hf
  cases h
  rcases hf with h | h | h <;> cases h
theorem Quiet.error {α : Type} {e : Err} (h : ¬ FsmErr e) : Quiet (Except.error e : R α) := by
  intro e' he; cases he; exact h
theorem Quiet.bind {α β : Type} {x : R α} {f : α → R β} (hx : Quiet x) (hf : ∀ a, Quiet (f a)) :
    Quiet (x >>= f) := by
  cases x with
  | error e => intro e' he; exact hx e' (by simpa [Bind.bind, Except.bind] using he)
  | ok a => exact hf a

theorem classOf_quiet {r : R Bytes} (h : Quiet r) : classOf r = .ok ∨ classOf r = .other := by
  cases r with
  | ok b => exact .inl rfl
  | error e =>
    have := h e rfl
    cases e <;> simp [classOf, FsmErr] at this ⊢

theorem extractMessage_quiet (side : Side) (msg : Bytes) : Quiet (extractMessage side msg) := by
  have hoff : ¬ FsmErr .OffSides := by simp [FsmErr]
  unfold extractMessage
  simp only []
  split
  · repeat' split
    all_goals first | exact Quiet.error hoff | exact Quiet.raise _ | exact Quiet.ok _
  · repeat' split
    all_goals first | exact Quiet.error hoff | exact Quiet.raise _ | exact Quiet.ok _

theorem getStr_quiet (d : Json.Dict) (k : Bytes) : Quiet (getStr d k) := by
  unfold getStr; split
  · exact Quiet.raise _
  · exact Quiet.ok _

theorem getHex_quiet (d : Json.Dict) (k : Bytes) : Quiet (getHex d k) := by
  unfold getHex; split
  · exact Quiet.raise _
  · split
    · exact Quiet.raise _
    · exact Quiet.ok _

section QuietOps
variable (hq : GroupQuiet G)
include hq

theorem outboundFor_quiet (i : Inst G) (x : Int) : Quiet (i.outboundFor x) := by
  unfold Inst.outboundFor
  exact Quiet.bind (hq.smul _ _) fun _ => Quiet.bind (hq.smul _ _) fun _ =>
    Quiet.bind (hq.add _ _) fun _ => Quiet.pure _

theorem start_quiet {i : Inst G} (h : i.started = false) : Quiet i.start.2 := by
  unfold Inst.start
  simp only [h, Bool.false_eq_true, if_false]
  split
  · rename_i e he
    exact fun e' h' => hq.randomScalar _ e' (by cases h'; exact he)
  · split
    · rename_i e he
      exact fun e' h' => outboundFor_quiet hq _ _ e' (by cases h'; exact he)
    · exact Quiet.ok _

theorem finishKey_quiet (i : Inst G) (inb : Bytes) : Quiet (i.finishKey inb) := by
  have hrt : ¬ FsmErr .ReflectionThwarted := by simp [FsmErr]
  unfold Inst.finishKey
  refine Quiet.bind (hq.dec _) fun e => ?_
  simp only []
  cases i.outbound <;> dsimp only <;>
    refine Quiet.bind (by first | exact Quiet.raise _ | exact Quiet.pure _) fun ob => ?_
  all_goals
    split
    · exact Quiet.error hrt
    · refine Quiet.bind (hq.smul _ _) fun _ => Quiet.bind (hq.add _ _) fun _ => ?_
      cases i.xyScalar <;> dsimp only <;>
        exact Quiet.bind (by first | exact Quiet.raise _ | exact Quiet.pure _) fun _ =>
          Quiet.bind (hq.smul _ _) fun _ => Quiet.pure _

theorem finish_quiet {i : Inst G} (msg : Bytes) (h : i.finished = false) : Quiet (i.finish msg).2 := by
  rw [finish_of_unfinished msg h]
  split
  · rename_i e he
    exact fun e' h' => extractMessage_quiet _ _ e' (by cases h'; exact he)
  · exact finishKey_quiet hq _ _

theorem hashParams_quiet (i : Inst G) : Quiet i.hashParams := by
  unfold Inst.hashParams
  exact Quiet.bind (hq.arb _) fun _ => Quiet.bind (hq.scalarEnc _) fun _ => Quiet.pure _

theorem toDict_quiet (i : Inst G) : Quiet i.toDict := by
  unfold Inst.toDict
  refine Quiet.bind (hashParams_quiet hq i) fun _ => ?_
  cases i.xyScalar <;> dsimp only <;>
    refine Quiet.bind (by first | exact Quiet.raise _ | exact Quiet.pure _) fun _ =>
      Quiet.bind (hq.scalarEnc _) fun _ => ?_
  all_goals split <;> exact Quiet.pure _

theorem serialize_quiet {i : Inst G} (h : i.started = true) : Quiet i.serialize := by
  unfold Inst.serialize
  simp only [h, Bool.not_true, Bool.false_eq_true, if_false]
  exact Quiet.bind (toDict_quiet hq i) fun _ => Quiet.pure _

theorem restoreTail_quiet (i : Inst G) (d : Json.Dict) : Quiet (restoreTail i d) := by
  have hw : ¬ FsmErr .WrongGroupError := by simp [FsmErr]
  unfold restoreTail
  refine Quiet.bind (getStr_quiet _ _) fun _ => Quiet.bind (hashParams_quiet hq _) fun _ => ?_
  split
  · exact Quiet.error hw
  · exact Quiet.bind (getHex_quiet _ _) fun _ => Quiet.bind (hq.scalarDec _) fun _ =>
      Quiet.bind (outboundFor_quiet hq _ _) fun _ => Quiet.pure _

theorem fromDict_quiet (side : Side) (d : Json.Dict) (params : Params G) :
    Quiet (fromDict side d params) := by
  have hw : ¬ FsmErr .WrongSideSerialized := by simp [FsmErr]
  cases side with
  | S =>
    simp only [fromDict]
    refine Quiet.bind (getStr_quiet _ _) fun _ => ?_
    split
    · exact Quiet.error hw
    · exact Quiet.bind (getHex_quiet _ _) fun _ => Quiet.bind (getHex_quiet _ _) fun _ =>
        restoreTail_quiet hq _ _
  | A =>
    simp only [fromDict]
    refine Quiet.bind (getHex_quiet _ _) fun _ => Quiet.bind (getHex_quiet _ _) fun _ =>
      Quiet.bind (getHex_quiet _ _) fun _ => Quiet.bind (getStr_quiet _ _) fun _ => ?_
    split
    · exact Quiet.error hw
    · exact restoreTail_quiet hq _ _
  | B =>
    simp only [fromDict]
    refine Quiet.bind (getHex_quiet _ _) fun _ => Quiet.bind (getHex_quiet _ _) fun _ =>
      Quiet.bind (getHex_quiet _ _) fun _ => Quiet.bind (getStr_quiet _ _) fun _ => ?_
    split
    · exact Quiet.error hw
    · exact restoreTail_quiet hq _ _

theorem fromSerialized_quiet (side : Side) (data : Bytes) (params : Params G) :
    Quiet (fromSerialized side data params) := by
  unfold fromSerialized
  split
  · exact Quiet.raise _
  · split
    · exact Quiet.raise _
    · exact fromDict_quiet hq _ _ _

theorem restore_quiet {i : Inst G} (h : i.started = true) : Quiet (stepH i .restore).2 := by
  simp only [stepH]
  cases hs : i.serialize with
  | error e => exact fun e' h' => serialize_quiet hq h e' (by cases h'; exact hs)
  | ok data =>
    dsimp only
    cases hf : fromSerialized i.side data i.params with
    | error e => exact fun e' h' => fromSerialized_quiet hq _ _ _ e' (by cases h'; exact hf)
    | ok j => exact Quiet.ok _

/-- **for a quiet group the model produces exactly the automaton's outcome classes** -/
theorem step_allowed (i : Inst G) (hwf : NoOutboundYet i) (op : HOp) :
    Allowed (flags i) op (classOf (stepH i op).2) := by
  unfold Allowed
  cases hfo : forced (flags i) op with
  | some c => exact step_forced i op c hfo
  | none =>
    refine ⟨classOf_quiet ?_, step_finish_unstarted_not_ok hwf⟩
    cases op with
    | start =>
      cases hs : i.started with
      | true => simp [forced, flags, hs] at hfo
      | false => exact start_quiet hq hs
    | finish msg =>
      cases hs : i.finished with
      | true => simp [forced, flags, hs] at hfo
      | false => exact finish_quiet hq msg hs
    | serialize =>
      cases hs : i.started with
      | false => simp [forced, flags, hs] at hfo
      | true => exact serialize_quiet hq hs
    | restore =>
      cases hs : i.started with
      | false => simp [forced, flags, hs] at hfo
      | true => exact restore_quiet hq hs

end QuietOps

/-! #### whole histories -/

/-- **refinement, every group**: after every history the model's flag pair is the automaton's
state, and the trace satisfies the group-independent part of the output relation (forced classes
are produced; `finish` in an unstarted state is never `ok`) -/
theorem refines_automaton_weak (i : Inst G) (hwf : NoOutboundYet i) (ops : List HOp) :
    flags (runHist i ops).1 = specRun (flags i) (trace i ops) ∧
    Accepts AllowedWeak (flags i) (trace i ops) := by
  induction ops generalizing i with
  | nil => exact ⟨rfl, trivial⟩
  | cons op rest ih =>
    obtain ⟨h1, h2⟩ := ih (stepH i op).1 (step_noOutboundYet op hwf)
    rw [trace_cons]
    simp only [runHist, specRun, Accepts]
    rw [← step_flags]
    exact ⟨h1, step_allowedWeak i hwf op, h2⟩

/-- **refinement, quiet groups**: the trace is accepted by the specification automaton -/
theorem refines_automaton_gen (hq : GroupQuiet G) (i : Inst G) (hwf : NoOutboundYet i) (ops : List HOp) :
    flags (runHist i ops).1 = specRun (flags i) (trace i ops) ∧
    Accepts Allowed (flags i) (trace i ops) := by
  induction ops generalizing i with
  | nil => exact ⟨rfl, trivial⟩
  | cons op rest ih =>
    obtain ⟨h1, h2⟩ := ih (stepH i op).1 (step_noOutboundYet op hwf)
    rw [trace_cons]
    simp only [runHist, specRun, Accepts]
    rw [← step_flags]
    exact ⟨h1, step_allowed hq i hwf op, h2⟩

theorem trace_take (i : Inst G) (ops : List HOp) (k : Nat) :
    trace i (ops.take k) = (trace i ops).take k := by
  induction ops generalizing i k with
  | nil => simp [trace, runHist]
  | cons a rest ih =>
    cases k with
    | zero => simp [trace, runHist]
    | succ k =>
      rw [List.take_succ_cons, trace_cons, trace_cons, List.take_succ_cons, ih]

/-- the flag pair before operation `k` is the automaton state after the first `k` trace entries -/
theorem flags_stateAt (i : Inst G) (hwf : NoOutboundYet i) (ops : List HOp) (k : Nat) :
    flags (stateAt i ops k) = specRun (flags i) ((trace i ops).take k) := by
  rw [← trace_take]
  exact (refines_automaton_weak i hwf (ops.take k)).1

section Fresh
variable (side : Side) (pw idA idB : Bytes) (params : Params G) (ent : Entropy)

/-- **C07 (e), every group.**  From a freshly constructed instance: the flag pair
`(started, finished)` after every history (and before every operation of it) equals the state of
the specification automaton started in `fresh`; whenever the automaton forces
`OnlyCallStartOnce` / `OnlyCallFinishOnce` / `SerializedTooEarly` the model returns it; `finish`
in an unstarted state never returns a key. -/
theorem refines_automaton_any (ops : List HOp) :
    let i0 : Inst G := Inst.new side pw idA idB params ent
    flags (runHist i0 ops).1 = specRun St.fresh (trace i0 ops) ∧
    (∀ k, flags (stateAt i0 ops k) = specRun St.fresh ((trace i0 ops).take k)) ∧
    Accepts AllowedWeak St.fresh (trace i0 ops) := by
  intro i0
  have hwf : NoOutboundYet i0 := fun _ => rfl
  exact ⟨(refines_automaton_weak i0 hwf ops).1, fun k => flags_stateAt i0 hwf ops k,
    (refines_automaton_weak i0 hwf ops).2⟩

/-- **C07 (e), quiet groups.**  The trace of every history of a freshly constructed instance is a
run of the specification automaton. -/
theorem refines_automaton (hq : GroupQuiet G) (ops : List HOp) :
    let i0 : Inst G := Inst.new side pw idA idB params ent
    flags (runHist i0 ops).1 = specRun St.fresh (trace i0 ops) ∧
    (∀ k, flags (stateAt i0 ops k) = specRun St.fresh ((trace i0 ops).take k)) ∧
    Accepts Allowed St.fresh (trace i0 ops) := by
  intro i0
  have hwf : NoOutboundYet i0 := fun _ => rfl
  exact ⟨(refines_automaton_gen hq i0 hwf ops).1, fun k => flags_stateAt i0 hwf ops k,
    (refines_automaton_gen hq i0 hwf ops).2⟩

/-- **the three guard exceptions occur exactly when the automaton says so** (quiet groups): at
every position `k` of every history, with `st` the automaton state before operation `k`,
* the outcome is `OnlyCallStartOnce` iff the operation is `start` and `st` is started;
* the outcome is `OnlyCallFinishOnce` iff the operation is `finish` and `st` is finished;
* the outcome is `SerializedTooEarly` iff the operation is `serialize`/`restore` and `st` is not started. -/
theorem fsm_errors_exact (hq : GroupQuiet G) (ops : List HOp) (k : Nat) (op : HOp) (o : R Bytes)
    (hop : ops[k]? = some op)
    (ho : (runHist (Inst.new side pw idA idB params ent) ops).2[k]? = some o) :
    let st := specRun St.fresh ((trace (Inst.new side pw idA idB params ent) ops).take k)
    (o = .error .OnlyCallStartOnce ↔ op = .start ∧ st.started = true) ∧
    (o = .error .OnlyCallFinishOnce ↔ (∃ m, op = .finish m) ∧ st.finished = true) ∧
    (o = .error .SerializedTooEarly ↔ (op = .serialize ∨ op = .restore) ∧ st.started = false) := by
  intro st
  have hwf0 : NoOutboundYet (Inst.new side pw idA idB params ent : Inst G) := fun _ => rfl
  have hst : flags (stateAt (Inst.new side pw idA idB params ent) ops k) = st :=
    flags_stateAt _ hwf0 ops k
  have hwf := inv_all (P := NoOutboundYet) (fun i op h => step_noOutboundYet op h) _ ops hwf0 k
  have hal := step_allowed hq _ hwf op
  rw [← out_eq hop ho, hst] at hal
  have hc : (o = .error .OnlyCallStartOnce ↔ classOf o = .startOnce) ∧
      (o = .error .OnlyCallFinishOnce ↔ classOf o = .finishOnce) ∧
      (o = .error .SerializedTooEarly ↔ classOf o = .tooEarly) := by
    cases o with
    | ok b => simp [classOf]
    | error e => cases e <;> simp [classOf]
  rw [hc.1, hc.2.1, hc.2.2]
  exact allowed_exact hal

/-- the same without any assumption on the group, in the direction that needs none -/
theorem fsm_errors_forced (ops : List HOp) (k : Nat) (op : HOp) (hop : ops[k]? = some op) :
    let i0 : Inst G := Inst.new side pw idA idB params ent
    let st := specRun St.fresh ((trace i0 ops).take k)
    (op = .start → st.started = true → (runHist i0 ops).2[k]? = some (.error .OnlyCallStartOnce)) ∧
    ((∃ m, op = .finish m) → st.finished = true →
      (runHist i0 ops).2[k]? = some (.error .OnlyCallFinishOnce)) ∧
    ((op = .serialize ∨ op = .restore) → st.started = false →
      (runHist i0 ops).2[k]? = some (.error .SerializedTooEarly)) := by
  intro i0 st
  have hwf0 : NoOutboundYet i0 := fun _ => rfl
  have hst : flags (stateAt i0 ops k) = st := flags_stateAt _ hwf0 ops k
  rw [out_get hop]
  refine ⟨?_, ?_, ?_⟩
  · intro h hs
    subst h
    have : (stateAt i0 ops k).started = true := by rw [← hst] at hs; exact hs
    rw [stepH_start, start_of_started this]
  · rintro ⟨m, rfl⟩ hs
    have : (stateAt i0 ops k).finished = true := by rw [← hst] at hs; exact hs
    rw [stepH_finish, finish_of_finished m this]
  · intro h hs
    have : (stateAt i0 ops k).started = false := by rw [← hst] at hs; exact hs
    rcases h with rfl | rfl
    · rw [stepH_serialize, serialize_of_unstarted this]
    · simp only [stepH, serialize_of_unstarted this]

end Fresh

end History
end Spake2Model

section Audit
open Spake2Model Spake2Model.History
#print axioms start_once
#print axioms finish_once
#print axioms finish_ok_once
#print axioms restore_resets_finished_step
#print axioms restore_resets_finished
#print axioms early_calls_gen
#print axioms early_calls
#print axioms finish_before_start_not_ok
#print axioms step_preserves_xyScalar
#print axioms scalar_constant_no_restore
#print axioms restore_roundtrip
#print axioms scalar_constant_good
#print axioms scalar_constant_gen
#print axioms scalar_constant_range
#print axioms scalar_constant
#print axioms step_flags
#print axioms step_forced
#print axioms step_allowed
#print axioms allowed_exact
#print axioms refines_automaton_weak
#print axioms refines_automaton_gen
#print axioms refines_automaton_any
#print axioms refines_automaton
#print axioms fsm_errors_exact
#print axioms fsm_errors_forced
#print axioms GroupQuiet.of_other
end Audit
