import Spake2Model.Model.Published
import Batteries.Lean.Except
/-!
Kernel evaluations (`decide +kernel`: SHA-256 / HKDF / group arithmetic run inside the Lean kernel,
no axioms) of the blinding elements of the 3072-bit integer parameter set (literal published constants).
Re-exported by `Properties/C03.lean`.
-/
set_option maxRecDepth 100000
namespace Spake2Verif.PublishedEval
open Spake2Model Spake2Model.Gen

theorem published_M_3072 :
    (IG.arb Published.i3072 Published.seedM).map (IG.enc Published.i3072) = .ok Published.M_3072 := by
  decide +kernel

theorem published_N_3072 :
    (IG.arb Published.i3072 Published.seedN).map (IG.enc Published.i3072) = .ok Published.N_3072 := by
  decide +kernel

theorem published_S_3072 :
    (IG.arb Published.i3072 Published.seedS).map (IG.enc Published.i3072) = .ok Published.S_3072 := by
  decide +kernel

theorem hash_params_total_3072 :
    (IG.arb Published.i3072 []).toOption.isSome = true := by
  decide +kernel

end Spake2Verif.PublishedEval

section Audit
open Spake2Verif.PublishedEval
#print axioms published_M_3072
#print axioms published_N_3072
#print axioms published_S_3072
#print axioms hash_params_total_3072
end Audit
