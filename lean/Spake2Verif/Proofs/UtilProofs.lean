import Spake2Model.Model.Util
import Spake2Verif.Proofs.BytesLemmas

/-!
Property C15 (util.py codecs): `size_bits`, `size_bytes`, `number_to_bytes`, `bytes_to_number`.
The arithmetic kernels are the machine-generated `Gen.Util.*`; core Lean only.
-/
set_option linter.unusedSimpArgs false
namespace Spake2Model
open Gen

/-! ### `size_bits` -/

theorem bitLength_of_pos {m : Int} (h : 0 < m) :
    Py.bitLength m = ((m.toNat.log2 + 1 : Nat) : Int) := by
  unfold Py.bitLength
  rw [if_neg (by omega)]
  have : m.natAbs = m.toNat := by omega
  rw [this]; rfl

theorem size_bits_zero : Util.size_bits 0 = 1 := by decide

theorem size_bits_of_pos {m : Int} (h : 0 < m) :
    Util.size_bits m = ((m.toNat.log2 + 1 : Nat) : Int) := by
  unfold Util.size_bits
  rw [bitLength_of_pos h]
  have : ((m.toNat.log2 + 1 : Nat) : Int) ≠ 0 := by omega
  rw [decide_eq_true this, if_pos rfl]

theorem sizeBits_zero : sizeBits 0 = 1 := by decide

theorem sizeBits_of_pos {m : Int} (h : 0 < m) : sizeBits m = m.toNat.log2 + 1 := by
  unfold sizeBits; rw [size_bits_of_pos h]; rfl

theorem sizeBits_pos {m : Int} (h : 0 ≤ m) : 1 ≤ sizeBits m := by
  rcases Int.lt_or_eq_of_le h with h | h
  · rw [sizeBits_of_pos h]; omega
  · subst h; rw [sizeBits_zero]; omega

/-- the generated `size_bits` is the cast of the model's `sizeBits` -/
theorem size_bits_eq {m : Int} (h : 0 ≤ m) : Util.size_bits m = (sizeBits m : Int) := by
  rcases Int.lt_or_eq_of_le h with h | h
  · rw [size_bits_of_pos h, sizeBits_of_pos h]
  · subst h; decide

/-- `2^(bits-1) ≤ maxval < 2^bits` on naturals -/
theorem sizeBits_spec_nat {m : Int} (h : 0 < m) :
    2 ^ (sizeBits m - 1) ≤ m.toNat ∧ m.toNat < 2 ^ sizeBits m := by
  rw [sizeBits_of_pos h]
  exact ⟨Nat.log2_self_le (by omega), Nat.lt_log2_self⟩

/-- `2^(bits-1) ≤ maxval < 2^bits` on integers -/
theorem sizeBits_spec {m : Int} (h : 0 < m) :
    (2 : Int) ^ (sizeBits m - 1) ≤ m ∧ m < (2 : Int) ^ sizeBits m := by
  have ⟨h1, h2⟩ := sizeBits_spec_nat h
  have hm : ((m.toNat : Nat) : Int) = m := Int.toNat_of_nonneg (Int.le_of_lt h)
  constructor
  · calc (2 : Int) ^ (sizeBits m - 1) = ((2 ^ (sizeBits m - 1) : Nat) : Int) := by simp
      _ ≤ (m.toNat : Int) := Int.ofNat_le.mpr h1
      _ = m := hm
  · calc m = (m.toNat : Int) := hm.symm
      _ < ((2 ^ sizeBits m : Nat) : Int) := Int.ofNat_lt.mpr h2
      _ = (2 : Int) ^ sizeBits m := by simp

theorem lt_two_pow_sizeBits {m : Int} (h : 0 ≤ m) : m.toNat < 2 ^ sizeBits m := by
  rcases Int.lt_or_eq_of_le h with h | h
  · exact (sizeBits_spec_nat h).2
  · subst h; decide

/-- `bits` is the unique width: any `k` with `2^(k-1) ≤ m < 2^k` equals `sizeBits m` -/
theorem sizeBits_unique {m : Int} (h : 0 < m) {k : Nat}
    (h1 : 2 ^ (k - 1) ≤ m.toNat) (h2 : m.toNat < 2 ^ k) : k = sizeBits m := by
  have ⟨g1, g2⟩ := sizeBits_spec_nat h
  have a : k - 1 < sizeBits m := (Nat.pow_lt_pow_iff_right (a := 2) (by omega)).mp (Nat.lt_of_le_of_lt h1 g2)
  have b : sizeBits m - 1 < k := (Nat.pow_lt_pow_iff_right (a := 2) (by omega)).mp (Nat.lt_of_le_of_lt g1 h2)
  have c : 1 ≤ k := by
    rcases Nat.eq_zero_or_pos k with hk | hk
    · subst hk; simp at h2; omega
    · exact hk
  omega

/-! ### `size_bytes` -/

theorem ceilDiv8 {a : Int} : Py.ceilDiv a 8 = (a + 7) / 8 := by
  unfold Py.ceilDiv
  rw [Int.fdiv_eq_ediv_of_nonneg _ (by omega)]
  omega

theorem fdiv8 {a : Int} : Int.fdiv a 8 = a / 8 := Int.fdiv_eq_ediv_of_nonneg _ (by omega)

/-- whether `size_bytes` rounds up with `int(math.ceil(bits / 8))` or with `(bits + 7) // 8` -/
theorem size_bytes_eq {m : Int} (h : 0 ≤ m) :
    Util.size_bytes m = (((sizeBits m + 7) / 8 : Nat) : Int) := by
  unfold Util.size_bytes
  simp only [ceilDiv8, fdiv8, size_bits_eq h]
  omega

theorem sizeBytes_eq {m : Int} (h : 0 ≤ m) : sizeBytes m = (sizeBits m + 7) / 8 := by
  unfold sizeBytes; rw [size_bytes_eq h]; rfl

theorem size_bytes_eq_sizeBytes {m : Int} (h : 0 ≤ m) : Util.size_bytes m = (sizeBytes m : Int) := by
  rw [size_bytes_eq h, sizeBytes_eq h]

theorem sizeBytes_pos {m : Int} (h : 0 ≤ m) : 1 ≤ sizeBytes m := by
  have := sizeBits_pos h
  rw [sizeBytes_eq h]; omega

/-- `8*(nb-1) < bits ≤ 8*nb` -/
theorem sizeBits_le_sizeBytes {m : Int} (h : 0 ≤ m) :
    sizeBits m ≤ 8 * sizeBytes m ∧ 8 * (sizeBytes m - 1) < sizeBits m := by
  have := sizeBits_pos h
  rw [sizeBytes_eq h]; omega

theorem two_pow_eight_mul (n : Nat) : 2 ^ (8 * n) = 256 ^ n := by
  rw [Nat.pow_mul]

/-- `maxval < 256 ^ size_bytes(maxval)` -/
theorem lt_pow_sizeBytes {m : Int} (h : 0 ≤ m) : m.toNat < 256 ^ sizeBytes m := by
  have h1 := lt_two_pow_sizeBits h
  have h2 : 2 ^ sizeBits m ≤ 2 ^ (8 * sizeBytes m) :=
    Nat.pow_le_pow_right (by omega) (sizeBits_le_sizeBytes h).1
  rw [two_pow_eight_mul] at h2
  omega

/-! ### `number_to_bytes` / `bytes_to_number` -/

theorem numberToBytes_ok {n m : Int} (h0 : 0 ≤ n) (h1 : n ≤ m) :
    numberToBytes n m = .ok (natToBE (sizeBytes m) n.toNat) := by
  unfold numberToBytes
  rw [if_neg (by omega), if_neg (by omega)]

theorem toNat_lt_pow_sizeBytes {n m : Int} (h0 : 0 ≤ n) (h1 : n ≤ m) : n.toNat < 256 ^ sizeBytes m := by
  have := lt_pow_sizeBytes (m := m) (by omega)
  omega

/-- `number_to_bytes(n, maxval)` for `0 ≤ n ≤ maxval`: exactly `size_bytes(maxval)` bytes, big-endian -/
theorem numberToBytes_spec {n m : Int} (h0 : 0 ≤ n) (h1 : n ≤ m) :
    ∃ b, numberToBytes n m = .ok b ∧ b.length = sizeBytes m ∧ IsBytes b ∧
      (beToNat b : Int) = n := by
  refine ⟨_, numberToBytes_ok h0 h1, natToBE_length _ _, natToBE_isBytes _ _, ?_⟩
  rw [beToNat_natToBE_of_lt (toNat_lt_pow_sizeBytes h0 h1)]
  exact Int.toNat_of_nonneg h0

/-- `number_to_bytes(n, maxval)` raises `ValueError` when `n > maxval` -/
theorem numberToBytes_gt {n m : Int} (h : m < n) : numberToBytes n m = raise .ValueError := by
  unfold numberToBytes; rw [if_pos h]

/-- negative numbers never encode -/
theorem numberToBytes_neg {n m : Int} (h : n < 0) : ∃ e, numberToBytes n m = .error e := by
  unfold numberToBytes; split
  · exact ⟨_, rfl⟩
  · exact ⟨_, rfl⟩

/-- success characterises the domain -/
theorem numberToBytes_ok_iff {n m : Int} :
    (∃ b, numberToBytes n m = .ok b) ↔ 0 ≤ n ∧ n ≤ m := by
  constructor
  · rintro ⟨b, hb⟩
    unfold numberToBytes at hb
    split at hb
    · cases hb
    · split at hb
      · cases hb
      · omega
  · rintro ⟨h0, h1⟩; exact ⟨_, numberToBytes_ok h0 h1⟩

theorem bytesToNumber_ok {b : Bytes} (h : b ≠ []) : bytesToNumber b = .ok (beToNat b : Int) := by
  unfold bytesToNumber
  cases b with
  | nil => exact absurd rfl h
  | cons x b => rfl

theorem bytesToNumber_nil : bytesToNumber [] = raise .ValueError := rfl

theorem bytesToNumber_nonneg {b : Bytes} {n : Int} (h : bytesToNumber b = .ok n) : 0 ≤ n := by
  unfold bytesToNumber at h
  split at h
  · cases h
  · cases h; exact Int.natCast_nonneg _

/-- decode ∘ encode = id -/
theorem bytesToNumber_numberToBytes {n m : Int} {b : Bytes} (h : numberToBytes n m = .ok b) :
    bytesToNumber b = .ok n := by
  have ⟨h0, h1⟩ := numberToBytes_ok_iff.mp ⟨b, h⟩
  obtain ⟨b', hb', hlen, _, hval⟩ := numberToBytes_spec h0 h1
  rw [h] at hb'; cases hb'
  have hne : b ≠ [] := by
    intro hb; rw [hb] at hlen
    have := sizeBytes_pos (m := m) (by omega)
    simp at hlen; omega
  rw [bytesToNumber_ok hne, hval]

/-- encode ∘ decode = id on canonical-length strings whose value is in range -/
theorem numberToBytes_beToNat {m : Int} {b : Bytes} (hb : IsBytes b)
    (hlen : b.length = sizeBytes m) (hval : (beToNat b : Int) ≤ m) :
    numberToBytes (beToNat b : Int) m = .ok b := by
  rw [numberToBytes_ok (Int.natCast_nonneg _) hval, ← hlen]
  show Except.ok (natToBE b.length (beToNat b)) = _
  rw [natToBE_beToNat b hb]

theorem numberToBytes_bytesToNumber {m n : Int} {b : Bytes} (hb : IsBytes b)
    (hlen : b.length = sizeBytes m) (hdec : bytesToNumber b = .ok n) (hval : n ≤ m) :
    numberToBytes n m = .ok b := by
  have hne : b ≠ [] := by
    rintro rfl; cases hdec
  rw [bytesToNumber_ok hne] at hdec
  cases hdec
  exact numberToBytes_beToNat hb hlen hval

/-- `number_to_bytes(·, maxval)` is injective on `[0, maxval]` -/
theorem numberToBytes_injective {n₁ n₂ m : Int} (h1 : 0 ≤ n₁ ∧ n₁ ≤ m) (_h2 : 0 ≤ n₂ ∧ n₂ ≤ m)
    (h : numberToBytes n₁ m = numberToBytes n₂ m) : n₁ = n₂ := by
  obtain ⟨b, hb⟩ := numberToBytes_ok_iff.mpr h1
  have e1 := bytesToNumber_numberToBytes hb
  rw [h] at hb
  have e2 := bytesToNumber_numberToBytes hb
  rw [e1] at e2; cases e2; rfl

/-- the image of `[0,maxval]` is exactly the canonical-length strings with value `≤ maxval` -/
theorem numberToBytes_image {m : Int} {b : Bytes} :
    (∃ n, numberToBytes n m = .ok b) ↔
      IsBytes b ∧ b.length = sizeBytes m ∧ (beToNat b : Int) ≤ m := by
  constructor
  · rintro ⟨n, hn⟩
    have ⟨h0, h1⟩ := numberToBytes_ok_iff.mp ⟨b, hn⟩
    obtain ⟨b', hb', hlen, hB, hval⟩ := numberToBytes_spec h0 h1
    rw [hn] at hb'; cases hb'
    exact ⟨hB, hlen, by omega⟩
  · rintro ⟨hB, hlen, hval⟩
    exact ⟨_, numberToBytes_beToNat hB hlen hval⟩

/-! ### property-level statement (C15) -/

/-- **C15**: the util.py integer/byte codecs.
For every `maxval ≥ 0`:
* `size_bits` is the binary width (`1` for `0`), `size_bytes = ⌈bits/8⌉`, `maxval < 256^size_bytes`;
* `number_to_bytes(n, maxval)` on `0 ≤ n ≤ maxval` is the `size_bytes(maxval)`-byte big-endian
  encoding, `ValueError` for `n > maxval`;
* `bytes_to_number` is the big-endian value; the two are mutually inverse and the encoder is
  injective. -/
theorem C15_util_codecs (maxval : Int) (hm : 0 ≤ maxval) :
    -- size_bits / size_bytes
    (Util.size_bits 0 = 1) ∧
    (Util.size_bits maxval = (sizeBits maxval : Int)) ∧
    (0 < maxval → (2 : Int) ^ (sizeBits maxval - 1) ≤ maxval ∧ maxval < (2 : Int) ^ sizeBits maxval) ∧
    (Util.size_bytes maxval = (sizeBytes maxval : Int)) ∧
    (sizeBytes maxval = (sizeBits maxval + 7) / 8) ∧
    (maxval.toNat < 256 ^ sizeBytes maxval) ∧
    -- number_to_bytes
    (∀ n, 0 ≤ n → n ≤ maxval → ∃ b, numberToBytes n maxval = .ok b ∧
        b.length = sizeBytes maxval ∧ IsBytes b ∧ (beToNat b : Int) = n) ∧
    (∀ n, maxval < n → numberToBytes n maxval = raise .ValueError) ∧
    -- bytes_to_number
    (∀ b, b ≠ [] → bytesToNumber b = .ok (beToNat b : Int)) ∧
    -- round trips
    (∀ n b, numberToBytes n maxval = .ok b → bytesToNumber b = .ok n) ∧
    (∀ b, IsBytes b → b.length = sizeBytes maxval → (beToNat b : Int) ≤ maxval →
        numberToBytes (beToNat b : Int) maxval = .ok b) ∧
    -- injectivity
    (∀ n₁ n₂, 0 ≤ n₁ → n₁ ≤ maxval → 0 ≤ n₂ → n₂ ≤ maxval →
        numberToBytes n₁ maxval = numberToBytes n₂ maxval → n₁ = n₂) :=
  ⟨size_bits_zero, size_bits_eq hm, sizeBits_spec, size_bytes_eq_sizeBytes hm, sizeBytes_eq hm,
   lt_pow_sizeBytes hm,
   fun _ h0 h1 => numberToBytes_spec h0 h1,
   fun _ h => numberToBytes_gt h,
   fun _ h => bytesToNumber_ok h,
   fun _ _ h => bytesToNumber_numberToBytes h,
   fun _ hb hl hv => numberToBytes_beToNat hb hl hv,
   fun _ _ a b c d h => numberToBytes_injective ⟨a, b⟩ ⟨c, d⟩ h⟩

#print axioms C15_util_codecs
#print axioms numberToBytes_image
#print axioms numberToBytes_bytesToNumber
#print axioms sizeBits_unique

end Spake2Model
