import Spake2Model.Model.Published
import Batteries.Lean.Except
/-!
Kernel evaluations (`decide +kernel`: SHA-256 / HKDF / group arithmetic run inside the Lean kernel,
no axioms) of the blinding elements of the 2048-bit integer parameter set (literal published constants).
Re-exported by `Properties/C03.lean`.
-/
set_option maxRecDepth 100000
namespace Spake2Verif.PublishedEval
open Spake2Model Spake2Model.Gen

theorem published_M_2048 :
    (IG.arb Published.i2048 Published.seedM).map (IG.enc Published.i2048) = .ok Published.M_2048 := by
  decide +kernel

theorem published_N_2048 :
    (IG.arb Published.i2048 Published.seedN).map (IG.enc Published.i2048) = .ok Published.N_2048 := by
  decide +kernel

theorem published_S_2048 :
    (IG.arb Published.i2048 Published.seedS).map (IG.enc Published.i2048) = .ok Published.S_2048 := by
  decide +kernel

theorem hash_params_total_2048 :
    (IG.arb Published.i2048 []).toOption.isSome = true := by
  decide +kernel

end Spake2Verif.PublishedEval

section Audit
open Spake2Verif.PublishedEval
#print axioms published_M_2048
#print axioms published_N_2048
#print axioms published_S_2048
#print axioms hash_params_total_2048
end Audit
