import Spake2Verif.Proofs.ProtoBasics
import Mathlib.Data.Finset.Image
import Mathlib.Data.Finset.Range
import Mathlib.Data.Finset.Card
import Mathlib.Algebra.Order.Group.Abs
import Mathlib.Algebra.Order.Ring.Abs
import Mathlib.Algebra.Order.Group.Int
/-!
Property C04 (the first message hides the password).

* `start_ignores_ids`   : the outbound message is a function of (side, parameters, password,
                          entropy) only
* `message_injective`   : for a fixed password, `x ↦ x•B + w•M` is injective on `[0,q)`
                          (needs `BaseOrder`: the base point has order exactly `q`)
* `message_surjective`  : every `q`-torsion element is `x•B + w•M` for exactly one `x ∈ [0,q)`
                          (existence needs `TorsionIsCyclic`, uniqueness `BaseOrder`)
* `message_uniform`     : hence, for any two passwords, the sets of messages over all `x ∈ [0,q)`
                          coincide, and with `BaseOrder` each message has exactly one preimage for
                          either password -- a uniformly random secret scalar yields the same
                          (uniform) message distribution whatever the password
-/
namespace Spake2Verif
open Spake2Model Spake2Model.Gen

variable {G : Group}

/-! ### the message does not depend on the identities -/

/-- the value `start()` returns on an unstarted record -/
theorem start_result (i : Inst G) (hs : i.started = false) :
    i.start.2 = match G.randomScalar i.entropy with
      | .error e => .error e
      | .ok (x, _) => match i.outboundFor x with
        | .error e => .error e
        | .ok ob => .ok (i.side.byte ++ ob) := by
  unfold Inst.start
  simp only [hs, Bool.false_eq_true, if_false]
  cases hr : G.randomScalar i.entropy with
  | error e => rfl
  | ok xe =>
    obtain ⟨x, ent'⟩ := xe
    simp only []
    have : Inst.outboundFor { i with started := true, entropy := ent', xyScalar := some x } x
        = i.outboundFor x := outboundFor_congr rfl rfl rfl x
    rw [this]
    cases i.outboundFor x <;> rfl

/-- **C04 (identities).**  The message returned by `start()` does not depend on `idA`/`idB`. -/
theorem start_ignores_ids (side : Side) (pw idA idB idA' idB' : Bytes) (P : Params G)
    (ent : Entropy) :
    (Inst.new side pw idA idB P ent).start.2 = (Inst.new side pw idA' idB' P ent).start.2 := by
  rw [start_result _ rfl, start_result _ rfl]
  have : ∀ x, (Inst.new side pw idA idB P ent).outboundFor x
      = (Inst.new side pw idA' idB' P ent).outboundFor x := fun x => outboundFor_congr rfl rfl rfl x
  simp only [this]
  rfl

/-! ### the map `x ↦ x•B + w•M` -/

section Algebra
variable (S : GroupSpec G)

theorem base_order_smul : (S.q : ℤ) • S.abs G.base = 0 := S.order_smul _ S.base_valid

/-- reducing the scalar mod `q` does not change `n•B` -/
theorem smul_base_emod (n : ℤ) : (n % (S.q : ℤ)) • S.abs G.base = n • S.abs G.base := by
  conv_rhs => rw [← Int.emod_add_mul_ediv n S.q]
  rw [add_smul, mul_comm, mul_smul, base_order_smul, smul_zero, add_zero]

/-- every message element is killed by `q` -/
theorem msgAbs_torsion {P : Params G} (hP : ValidParams S P) (side : Side) (w x : ℤ) :
    (S.q : ℤ) • msgAbs S P side w x = 0 := by
  unfold msgAbs
  rw [smul_add, smul_comm, base_order_smul, smul_zero, smul_comm,
    S.order_smul _ (hP.blinding side), smul_zero, add_zero]

/-- **C04 (injectivity).**  For a fixed password the message element determines `x ∈ [0,q)`. -/
theorem message_injective (hB : S.BaseOrder) (P : Params G) (side : Side) (w : ℤ) {x x' : ℤ}
    (hx : 0 ≤ x ∧ x < S.q) (hx' : 0 ≤ x' ∧ x' < S.q)
    (h : msgAbs S P side w x = msgAbs S P side w x') : x = x' := by
  unfold msgAbs at h
  have h1 : (x - x') • S.abs G.base = 0 := by
    rw [sub_smul, add_right_cancel h, sub_self]
  have h2 := hB _ h1
  have h3 : |x - x'| < (S.q : ℤ) := by rw [abs_lt]; constructor <;> omega
  have := Int.eq_zero_of_abs_lt_dvd h2 h3
  omega

/-- **C04 (surjectivity).**  Every element of the `q`-torsion is the message element of exactly
one `x ∈ [0,q)`. -/
theorem message_surjective (hT : S.TorsionIsCyclic) (hB : S.BaseOrder) {P : Params G}
    (hP : ValidParams S P) (side : Side) (w : ℤ) (a : S.A) (ha : (S.q : ℤ) • a = 0) :
    ∃! x : ℤ, (0 ≤ x ∧ x < S.q) ∧ msgAbs S P side w x = a := by
  have hq : (0 : ℤ) < S.q := by exact_mod_cast S.q_pos
  have htor : (S.q : ℤ) • (a - w • S.abs (blinding P side)) = 0 := by
    rw [smul_sub, ha, smul_comm, S.order_smul _ (hP.blinding side), smul_zero, sub_zero]
  obtain ⟨n, hn⟩ := hT _ htor
  refine ⟨n % S.q, ⟨⟨Int.emod_nonneg _ (by omega), Int.emod_lt_of_pos _ hq⟩, ?_⟩, ?_⟩
  · unfold msgAbs
    rw [smul_base_emod, ← hn, sub_add_cancel]
  · rintro x' ⟨hx', hm⟩
    refine message_injective S hB P side w hx' ⟨Int.emod_nonneg _ (by omega), Int.emod_lt_of_pos _ hq⟩ ?_
    rw [hm]; unfold msgAbs
    rw [smul_base_emod, ← hn, sub_add_cancel]

/-- existence alone needs only `TorsionIsCyclic` -/
theorem message_hits (hT : S.TorsionIsCyclic) {P : Params G} (hP : ValidParams S P) (side : Side)
    (w : ℤ) (a : S.A) (ha : (S.q : ℤ) • a = 0) :
    ∃ x : ℤ, (0 ≤ x ∧ x < S.q) ∧ msgAbs S P side w x = a := by
  have hq : (0 : ℤ) < S.q := by exact_mod_cast S.q_pos
  have htor : (S.q : ℤ) • (a - w • S.abs (blinding P side)) = 0 := by
    rw [smul_sub, ha, smul_comm, S.order_smul _ (hP.blinding side), smul_zero, sub_zero]
  obtain ⟨n, hn⟩ := hT _ htor
  refine ⟨n % S.q, ⟨Int.emod_nonneg _ (by omega), Int.emod_lt_of_pos _ hq⟩, ?_⟩
  unfold msgAbs
  rw [smul_base_emod, ← hn, sub_add_cancel]

end Algebra

/-! ### the messages as byte strings -/

/-- the element encoding `start()` sends (after the side byte) for secret scalar `x`;
the identities are irrelevant (`start_ignores_ids`) and set to `b""` -/
def msgBytes (P : Params G) (side : Side) (pw : Bytes) (x : ℕ) : Bytes :=
  match (Inst.new side pw [] [] P ⟨[]⟩).outboundFor (x : ℤ) with
  | .ok b => b
  | .error _ => []

theorem msgBytes_spec (S : GroupSpec G) {P : Params G} (hP : ValidParams S P) (side : Side)
    (pw : Bytes) (x : ℕ) :
    ∃ e, S.Valid e ∧ S.abs e = msgAbs S P side (G.p2s pw) x ∧ msgBytes P side pw x = G.enc e := by
  obtain ⟨e, v, a, he⟩ := outboundFor_spec S (Inst.new side pw [] [] P ⟨[]⟩) hP x
  exact ⟨e, v, a, by simp [msgBytes, he]⟩

/-- `msgBytes` is what any session with this side, password and parameters sends -/
theorem msgBytes_eq_outbound {i : Inst G} (hw : i.pwScalar = G.p2s i.pw) (x : ℕ) {ob : Bytes}
    (h : i.outboundFor (x : ℤ) = .ok ob) : msgBytes i.params i.side i.pw x = ob := by
  have : (Inst.new i.side i.pw [] [] i.params ⟨[]⟩).outboundFor (x : ℤ) = i.outboundFor x :=
    outboundFor_congr (i := Inst.new i.side i.pw [] [] i.params ⟨[]⟩) (i' := i) rfl rfl hw.symm x
  simp [msgBytes, this, h]

/-- for one password, distinct secrets in `[0,q)` give distinct messages -/
theorem msgBytes_injOn (S : GroupSpec G) (hB : S.BaseOrder) {P : Params G} (hP : ValidParams S P)
    (side : Side) (pw : Bytes) :
    Set.InjOn (msgBytes P side pw) (Finset.range S.q : Finset ℕ) := by
  intro x hx x' hx' h
  simp only [Finset.coe_range, Set.mem_Iio] at hx hx'
  obtain ⟨e, v, a, he⟩ := msgBytes_spec S hP side pw x
  obtain ⟨e', v', a', he'⟩ := msgBytes_spec S hP side pw x'
  have habs : S.abs e = S.abs e' := (S.enc_inj e e' v v').mp (by rw [← he, ← he', h])
  rw [a, a'] at habs
  have := message_injective S hB P side (G.p2s pw) (x := x) (x' := x')
    ⟨by omega, by exact_mod_cast hx⟩ ⟨by omega, by exact_mod_cast hx'⟩ habs
  exact_mod_cast this

/-- every message for password `pw` is also a message for password `pw'` -/
theorem msgBytes_image_subset (S : GroupSpec G) (hT : S.TorsionIsCyclic) {P : Params G}
    (hP : ValidParams S P) (side : Side) (pw pw' : Bytes) :
    (Finset.range S.q).image (msgBytes P side pw) ⊆ (Finset.range S.q).image (msgBytes P side pw') := by
  intro m hm
  simp only [Finset.mem_image, Finset.mem_range] at hm ⊢
  obtain ⟨x, hx, rfl⟩ := hm
  obtain ⟨e, v, a, he⟩ := msgBytes_spec S hP side pw x
  obtain ⟨x', ⟨hx'0, hx'q⟩, hx'⟩ := message_hits S hT hP side (G.p2s pw') (S.abs e)
    (by rw [a]; exact msgAbs_torsion S hP side _ _)
  refine ⟨x'.toNat, by omega, ?_⟩
  obtain ⟨e', v', a', he'⟩ := msgBytes_spec S hP side pw' x'.toNat
  rw [he, he']
  apply (S.enc_inj e' e v' v).mpr
  rw [a', Int.toNat_of_nonneg hx'0, hx']

/-- **C04 (uniformity).**  For any two passwords the sets of first messages, taken over all secret
scalars `x ∈ [0,q)`, are equal. -/
theorem message_uniform (S : GroupSpec G) (hT : S.TorsionIsCyclic) {P : Params G}
    (hP : ValidParams S P) (side : Side) (pw pw' : Bytes) :
    (Finset.range S.q).image (msgBytes P side pw) = (Finset.range S.q).image (msgBytes P side pw') :=
  Finset.Subset.antisymm (msgBytes_image_subset S hT hP side pw pw')
    (msgBytes_image_subset S hT hP side pw' pw)

/-- ... and (with `BaseOrder`) that set has exactly `q` elements, one per secret scalar -/
theorem message_count (S : GroupSpec G) (hB : S.BaseOrder) {P : Params G} (hP : ValidParams S P)
    (side : Side) (pw : Bytes) :
    ((Finset.range S.q).image (msgBytes P side pw)).card = S.q := by
  rw [Finset.card_image_of_injOn (msgBytes_injOn S hB hP side pw), Finset.card_range]

/-- **C04 (bijection).**  For any two passwords there is exactly one secret `x' ∈ [0,q)` under
`pw'` producing the message that `x ∈ [0,q)` produces under `pw`: an observer of the first message
who does not know `x` learns nothing about the password. -/
theorem message_bijection (S : GroupSpec G) (hT : S.TorsionIsCyclic) (hB : S.BaseOrder)
    {P : Params G} (hP : ValidParams S P) (side : Side) (pw pw' : Bytes) (x : ℕ) (hx : x < S.q) :
    ∃! x' : ℕ, x' < S.q ∧ msgBytes P side pw' x' = msgBytes P side pw x := by
  have hmem : msgBytes P side pw x ∈ (Finset.range S.q).image (msgBytes P side pw') :=
    msgBytes_image_subset S hT hP side pw pw'
      (Finset.mem_image.mpr ⟨x, Finset.mem_range.mpr hx, rfl⟩)
  obtain ⟨x', hx', he⟩ := Finset.mem_image.mp hmem
  refine ⟨x', ⟨Finset.mem_range.mp hx', he⟩, fun y ⟨hy, hye⟩ => ?_⟩
  exact msgBytes_injOn S hB hP side pw' (by simpa using hy) (by simpa using Finset.mem_range.mp hx')
    (hye.trans he.symm)

end Spake2Verif

section Audit
open Spake2Verif
#print axioms start_ignores_ids
#print axioms message_injective
#print axioms message_surjective
#print axioms message_uniform
#print axioms message_count
#print axioms message_bijection
end Audit
