import Spake2Model.Model.Ed25519
import Spake2Model.Gen.EdShape
import Mathlib.Tactic.SplitIfs
/-!
Tie A for the class layer of `ed25519_basic.py`: the hand-written `Ed25519.smul / add / negate / dec` of
`Model/Ed25519.lean` ARE the translation `Gen/EdShape.lean` (regenerated from the three classes on every run),
for every `c : Curve`, through the explicit conversion `toS : EdElem → K × P4` (inverse `ofS`).

* `smul_tie`, `add_tie`, `negate_tie` : the three methods, with Python's method resolution as a dispatch on the kind
* `dec_tie` : the checks of `bytes_to_element` (decoding and `to_bytes` are parameters; needs `0 ≤ L`, because
  `P.scalarmult(L)` goes through the `assert s >= 0` of `ElementOfUnknownGroup.scalarmult`)
* `zeroPt_tie` : the coordinates of `Zero`

The proofs split on the kinds and on every `if`, then normalise; reordered independent checks, helper methods,
extra locals and merged/unmerged branches still check, a changed scalar, class or outcome does not.
-/
set_option linter.unusedSimpArgs false
namespace Spake2Verif.EdShapeTie
open Spake2Model Spake2Model.Gen

def toK : Kind → EdShape.K
  | .elem => .elem
  | .unknown => .unknown
  | .zero => .zero

def ofK : EdShape.K → Kind
  | .elem => .elem
  | .unknown => .unknown
  | .zero => .zero

def toS (e : EdElem) : EdShape.K × P4 := (toK e.kind, e.pt)
def ofS (p : EdShape.K × P4) : EdElem := ⟨ofK p.1, p.2⟩

@[simp] theorem ofS_toS (e : EdElem) : ofS (toS e) = e := by
  rcases e with ⟨k, p⟩; cases k <;> rfl
@[simp] theorem toS_ofS (p : EdShape.K × P4) : toS (ofS p) = p := by
  rcases p with ⟨k, p⟩; cases k <;> rfl

theorem zeroPt_tie (c : Curve) : Ed25519.zeroPt c = EdShape.zero_pt c.Q := rfl

@[simp] theorem toK_elem : toK .elem = .elem := rfl
@[simp] theorem toK_unknown : toK .unknown = .unknown := rfl
@[simp] theorem toK_zero : toK .zero = .zero := rfl

macro "edshape_cases" : tactic =>
  `(tactic| (try split_ifs) <;> (try simp_all [toS, Except.map]) <;> (try omega))

theorem smul_tie (c : Curve) (a : EdElem) (s : Int) :
    (Ed25519.smul c a s).map toS = EdShape.smul c.Q c.L c.d (Ed25519.zeroPt c) (toS a) s := by
  rcases a with ⟨k, p⟩
  cases k <;>
    simp [Ed25519.smul, EdShape.smul, EdShape.smul_elem, EdShape.smul_unknown, EdShape.smul_zero, toS,
      Ed25519.Zero, raise] <;> edshape_cases

theorem add_tie (c : Curve) (a b : EdElem) :
    (Ed25519.add c a b).map toS = EdShape.add c.Q c.L c.d (Ed25519.zeroPt c) (toS a) (toS b) := by
  rcases a with ⟨ka, pa⟩
  rcases b with ⟨kb, pb⟩
  cases ka <;> cases kb <;>
    simp [Ed25519.add, Ed25519.addUnknown, EdShape.add, EdShape.add_elem, EdShape.add_unknown, EdShape.add_zero, toS,
      Ed25519.Zero, raise] <;> edshape_cases

theorem negate_tie (c : Curve) (a : EdElem) :
    (Ed25519.negate c a).map toS = EdShape.negate c.Q c.L c.d (Ed25519.zeroPt c) (toS a) := by
  rcases a with ⟨k, p⟩
  cases k <;>
    simp [Ed25519.negate, EdShape.negate, EdShape.negate_elem, EdShape.negate_unknown, EdShape.negate_zero, toS,
      Ed.negate_scalar, Ed25519.Zero, raise] <;> edshape_cases

theorem decUnknown_kind (c : Curve) (b : Bytes) (P : EdElem) (h : Ed25519.decUnknown c b = .ok P) :
    P.kind ≠ .elem := by
  unfold Ed25519.decUnknown at h
  split_ifs at h
  · cases h; simp [Ed25519.Zero]
  · split at h
    · cases h
    · cases h; simp

theorem dec_tie (c : Curve) (hL : 0 ≤ c.L) (b : Bytes) :
    (Ed25519.dec c b).map toS =
      EdShape.dec_checks c.Q c.L c.d (Ed25519.zeroPt c) (fun x => (Ed25519.decUnknown c x).map toS)
        (fun p => Ed25519.toBytes c (ofS p)) b := by
  unfold Ed25519.dec EdShape.dec_checks
  cases h : Ed25519.decUnknown c b with
  | error e => simp [Except.map, h]
  | ok P =>
    have hk := decUnknown_kind c b P h
    rcases P with ⟨k, p⟩
    cases k <;>
      simp [EdShape.smul, EdShape.smul_elem, EdShape.smul_unknown, EdShape.smul_zero, toS, ofS, ofK, raise,
        Except.map, h] at hk ⊢ <;> edshape_cases

end Spake2Verif.EdShapeTie
