import Spake2Model.Model.Published
import Batteries.Lean.Except
/-!
Kernel evaluations (`decide +kernel`: SHA-256 / HKDF / group arithmetic run inside the Lean kernel,
no axioms) of the blinding elements of the Ed25519 parameter set (published and generated constants).
Re-exported by `Properties/C03.lean`.
-/
set_option maxRecDepth 100000
namespace Spake2Verif.PublishedEval
open Spake2Model Spake2Model.Gen

theorem published_M_ed :
    (Ed25519.arb Published.curve Published.seedM).map (Ed25519.toBytes Published.curve) =
      .ok Published.M_ed := by
  decide +kernel

theorem generated_M_ed :
    (Ed25519.arb Spake2Model.ed25519 Consts.seedM).map (Ed25519.toBytes Spake2Model.ed25519) =
      .ok Published.M_ed := by
  decide +kernel

theorem published_N_ed :
    (Ed25519.arb Published.curve Published.seedN).map (Ed25519.toBytes Published.curve) =
      .ok Published.N_ed := by
  decide +kernel

theorem generated_N_ed :
    (Ed25519.arb Spake2Model.ed25519 Consts.seedN).map (Ed25519.toBytes Spake2Model.ed25519) =
      .ok Published.N_ed := by
  decide +kernel

theorem published_S_ed :
    (Ed25519.arb Published.curve Published.seedS).map (Ed25519.toBytes Published.curve) =
      .ok Published.S_ed := by
  decide +kernel

theorem generated_S_ed :
    (Ed25519.arb Spake2Model.ed25519 Consts.seedS).map (Ed25519.toBytes Spake2Model.ed25519) =
      .ok Published.S_ed := by
  decide +kernel

theorem hash_params_total_ed :
    (Ed25519.arb Spake2Model.ed25519 []).toOption.isSome = true ∧
    (Ed25519.arb Published.curve []).toOption.isSome = true := by
  decide +kernel

end Spake2Verif.PublishedEval

section Audit
open Spake2Verif.PublishedEval
#print axioms published_M_ed
#print axioms generated_M_ed
#print axioms published_N_ed
#print axioms generated_N_ed
#print axioms published_S_ed
#print axioms generated_S_ed
#print axioms hash_params_total_ed
end Audit
