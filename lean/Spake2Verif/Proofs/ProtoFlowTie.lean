import Spake2Model.Model.Spake2
import Spake2Model.Gen.ProtoFlow
import Spake2Verif.Proofs.ProtoShapeTie
/-!
Tie A for the control flow of `spake2.py`: the hand-written state machine of `Model/Spake2.lean`
(`Inst.start`, `Inst.finish`, `Inst.serialize`, `fromDict`, the role accessors and `Inst.finalize`) IS the
translation `Gen/ProtoFlow.lean` that `tools/py2lean_protoflow.py` regenerates from the method bodies on every run,
when the abstract operations are the model's group operations (`mops`, `mdops`).

The translated methods work on the record `St` of instance attributes (which has `xy_elem`, an attribute the
model does not store); `ofSt` maps such a record to the model's `Inst`, `toSt` embeds an `Inst` (`ofSt_toSt`: every
`Inst` is covered).  Each theorem says: same result (value or exception) AND same new state, for every state and input.

* `accessors_tie`  : `my_blinding`, `my_unblinding` per class
* `finalize_tie`   : `_finalize` per class (which message is `X_msg`, which `Y_msg`; argument order)
* `start_tie`, `start_tie_inst`   : `start()` (with `compute_outbound_message`)
* `finish_tie`, `finish_tie_inst` : `finish(msg)`
* `serialize_tie`  : the guard of `serialize()`
* `restore_tie`    : both `_deserialize_from_dict`
* `init_flags_tie` : the flags after `__init__`
* `start_is_source`, `finish_is_source`, `serialize_is_source`, `restore_is_source` : the same, as equalities of functions
-/
set_option linter.unusedSimpArgs false
set_option linter.unusedVariables false
namespace Spake2Verif.ProtoFlowTie
open Spake2Model Spake2Model.Gen
open Spake2Model.Gen.ProtoFlow (Role St Ops DOps)

variable {G : Group}

def toRole : Side → Role
  | .A => .A
  | .B => .B
  | .S => .S

def ofRole : Role → Side
  | .A => .A
  | .B => .B
  | .S => .S

@[simp] theorem ofRole_toRole (s : Side) : ofRole (toRole s) = s := by cases s <;> rfl
@[simp] theorem toRole_ofRole (r : Role) : toRole (ofRole r) = r := by cases r <;> rfl

/-- the model's group operations as the abstract operations of the translation -/
def mops (params : Params G) : Ops G.Elem Entropy where
  M := params.M
  N := params.N
  S := params.S
  Base := G.base
  random_scalar := G.randomScalar
  scalarmult := G.smul
  add := G.add
  to_bytes := G.enc
  bytes_to_element := G.dec
  bytes_to_scalar := G.scalarDec

/-- the model instance a record of attributes stands for (`xy_elem` is not stored by the model;
`idSymmetric` is kept in `idA` on side S) -/
def ofSt (role : Role) (params : Params G) (st : St G.Elem Entropy) : Inst G where
  side := ofRole role
  pw := st.pw
  idA := match role with | .S => st.idSymmetric | _ => st.idA
  idB := st.idB
  params := params
  pwScalar := st.pw_scalar
  entropy := st.entropy_f
  started := st.started
  finished := st.finished
  xyScalar := st.xy_scalar
  outbound := st.outbound_message
  inbound := st.inbound_message

/-- the attributes of a model instance -/
def toSt (i : Inst G) : St G.Elem Entropy where
  started := i.started
  finished := i.finished
  pw := i.pw
  pw_scalar := i.pwScalar
  idA := i.idA
  idB := i.idB
  idSymmetric := i.idA
  entropy_f := i.entropy
  xy_scalar := i.xyScalar
  xy_elem := none
  outbound_message := i.outbound
  inbound_message := i.inbound

theorem ofSt_toSt (i : Inst G) : ofSt (toRole i.side) i.params (toSt i) = i := by
  rcases i with ⟨s, _, _, _, _, _, _, _, _, _, _, _⟩
  cases s <;> rfl

/-- the model's dictionary access, constructor, fingerprint and dictionary dump as the remaining abstract operations -/
def mdops (role : Role) (params : Params G) (d : Json.Dict) : DOps G.Elem Entropy where
  dget := fun k => getStr d (asciiOf k)
  encode_ascii := fun s => .ok s
  unhexlify := fun v => match unhexlify v with | none => raise .BinasciiError | some b => .ok b
  should_be_unused := ⟨[]⟩
  construct_asym := fun pw idA idB ent => .ok (toSt (Inst.new (ofRole role) pw idA idB params ent))
  construct_sym := fun pw idS ent => .ok (toSt (Inst.new (ofRole role) pw idS [] params ent))
  hash_params := fun st => (ofSt role params st).hashParams
  dumps_serialize_to_dict := fun st => do
    let dd ← (ofSt role params st).toDict
    pure (Json.dumps dd)

/-- every case of the analysis on the results of the model's operations is closed by unfolding both sides -/
macro "flow_leaf" : tactic =>
  `(tactic| simp_all [ProtoFlow.start, ProtoFlow.start_SPAKE2_Base, ProtoFlow.compute_outbound_message,
      ProtoFlow.compute_outbound_message_SPAKE2_Base, ProtoFlow.finish, ProtoFlow.finish_SPAKE2_Base,
      ProtoFlow.serialize, ProtoFlow.serialize_SPAKE2_Base, ProtoFlow.deserialize_from_dict,
      ProtoFlow.deserialize_from_dict_SPAKE2_Asymmetric, ProtoFlow.deserialize_from_dict_SPAKE2_Symmetric,
      ProtoFlow.my_blinding, ProtoFlow.my_blinding_SPAKE2_A, ProtoFlow.my_blinding_SPAKE2_B,
      ProtoFlow.my_blinding_SPAKE2_Symmetric, ProtoFlow.my_unblinding, ProtoFlow.my_unblinding_SPAKE2_A,
      ProtoFlow.my_unblinding_SPAKE2_B, ProtoFlow.my_unblinding_SPAKE2_Symmetric,
      ProtoFlow.finalize, ProtoFlow.finalize_SPAKE2_Asymmetric, ProtoFlow.finalize_SPAKE2_Symmetric, ProtoFlow.X_msg,
      ProtoFlow.Y_msg, ProtoFlow.X_msg_SPAKE2_A, ProtoFlow.X_msg_SPAKE2_B, ProtoFlow.Y_msg_SPAKE2_A, ProtoFlow.Y_msg_SPAKE2_B,
      ProtoFlow.attr, Inst.start, Inst.outboundFor, Inst.finish, Inst.finishKey, Inst.finalize, Inst.serialize,
      Inst.myBlinding, Inst.myUnblinding, Inst.new, fromDict, restoreTail, getHex, getStr,
      ofSt, toSt, ofRole, mops, mdops, raise, ProtoShapeTie.finalize_asym_tie, ProtoShapeTie.finalize_sym_tie,
      bind, Except.bind, Functor.map, Except.map, pure, Except.pure,
      k_hashed_params, k_side, k_idA, k_idB, k_idS, k_password, k_xy_scalar])

/-! ### role accessors, `_finalize` -/

theorem accessors_tie (role : Role) (params : Params G) (st : St G.Elem Entropy) :
    ProtoFlow.my_blinding (mops params) role st = .ok (ofSt role params st).myBlinding ∧
    ProtoFlow.my_unblinding (mops params) role st = .ok (ofSt role params st).myUnblinding := by
  cases role <;>
    simp [ProtoFlow.my_blinding, ProtoFlow.my_unblinding, ProtoFlow.my_blinding_SPAKE2_A, ProtoFlow.my_blinding_SPAKE2_B,
      ProtoFlow.my_blinding_SPAKE2_Symmetric, ProtoFlow.my_unblinding_SPAKE2_A, ProtoFlow.my_unblinding_SPAKE2_B,
      ProtoFlow.my_unblinding_SPAKE2_Symmetric, Inst.myBlinding, Inst.myUnblinding, ofSt, ofRole, mops]

/-- `_finalize(K)` once both messages are known: the transcript arguments per class -/
theorem finalize_tie (role : Role) (params : Params G) (st : St G.Elem Entropy) (inb ob K : Bytes)
    (hi : st.inbound_message = some inb) (ho : st.outbound_message = some ob) :
    ProtoFlow.finalize (mops params) role st K = .ok ((ofSt role params st).finalize inb ob K) := by
  cases role <;>
    simp [ProtoFlow.finalize, ProtoFlow.finalize_SPAKE2_Asymmetric, ProtoFlow.finalize_SPAKE2_Symmetric, ProtoFlow.X_msg,
      ProtoFlow.Y_msg, ProtoFlow.X_msg_SPAKE2_A, ProtoFlow.X_msg_SPAKE2_B, ProtoFlow.Y_msg_SPAKE2_A, ProtoFlow.Y_msg_SPAKE2_B,
      ProtoFlow.attr, hi, ho, Inst.finalize, ofSt, ofRole, ProtoShapeTie.finalize_asym_tie, ProtoShapeTie.finalize_sym_tie]

/-! ### `start()` -/

theorem side_tie (role : Role) : ProtoFlow.side role = (ofRole role).byte := by
  cases role <;> simp [ProtoFlow.side, ofRole, ProtoShapeTie.class_sides_tie]

theorem extract_tie (role : Role) (m : Bytes) :
    ProtoFlow.extract_message role m = extractMessage (ofRole role) m := by
  cases role <;>
    simp [ProtoFlow.extract_message, ofRole, side_tie, ProtoShapeTie.extract_sym_tie,
      ProtoShapeTie.extract_asym_tie Side.A (by decide), ProtoShapeTie.extract_asym_tie Side.B (by decide)]

theorem start_tie (role : Role) (params : Params G) (st : St G.Elem Entropy) :
    (ofSt role params st).start =
      ((ofSt role params (ProtoFlow.start (mops params) role st).1), (ProtoFlow.start (mops params) role st).2) := by
  have hside := side_tie role
  (
    rcases hs : st.started with _ | _
    rcases hr : G.randomScalar st.entropy_f with e | ⟨x, ent⟩
    · cases role <;> flow_leaf
    rcases h1 : G.smul G.base x with e | xy
    · cases role <;> flow_leaf
    rcases h2 : G.smul (ofSt role params st).myBlinding st.pw_scalar with e | bl
    · cases role <;> flow_leaf
    rcases h3 : G.add xy bl with e | m
    · cases role <;> flow_leaf
    · cases role <;> flow_leaf
    · cases role <;> flow_leaf)

/-- every model instance: `start()` is the translated `start` on its attributes -/
theorem start_tie_inst (i : Inst G) :
    i.start = ((ofSt (toRole i.side) i.params (ProtoFlow.start (mops i.params) (toRole i.side) (toSt i)).1),
      (ProtoFlow.start (mops i.params) (toRole i.side) (toSt i)).2) := by
  rw [← start_tie, ofSt_toSt]

/-! ### `finish(msg)` -/

theorem finish_tie (role : Role) (params : Params G) (st : St G.Elem Entropy) (msg : Bytes) :
    (ofSt role params st).finish msg =
      ((ofSt role params (ProtoFlow.finish (mops params) role st msg).1), (ProtoFlow.finish (mops params) role st msg).2) := by
  have hex := extract_tie role msg
  (
    rcases hs : st.finished with _ | _
    rcases hx : extractMessage (ofRole role) msg with e | inb
    · cases role <;> flow_leaf
    rcases hd : G.dec inb with e | el
    · cases role <;> flow_leaf
    rcases ho : st.outbound_message with _ | ob
    · cases role <;> flow_leaf
    by_cases hrefl : G.enc el = ob
    · cases role <;> flow_leaf
    rcases h1 : G.smul (ofSt role params st).myUnblinding (-st.pw_scalar) with e | unb
    · cases role <;> flow_leaf
    rcases h2 : G.add el unb with e | sm
    · cases role <;> flow_leaf
    rcases hxy : st.xy_scalar with _ | x
    · cases role <;> flow_leaf
    rcases h3 : G.smul sm x with e | K
    · cases role <;> flow_leaf
    · cases role <;> flow_leaf
    · cases role <;> flow_leaf)

theorem finish_tie_inst (i : Inst G) (msg : Bytes) :
    i.finish msg = ((ofSt (toRole i.side) i.params (ProtoFlow.finish (mops i.params) (toRole i.side) (toSt i) msg).1),
      (ProtoFlow.finish (mops i.params) (toRole i.side) (toSt i) msg).2) := by
  rw [← finish_tie, ofSt_toSt]

/-! ### `serialize()` : the guard -/

theorem serialize_tie (role : Role) (params : Params G) (d : Json.Dict) (st : St G.Elem Entropy) :
    ProtoFlow.serialize (mops params) (mdops role params d) role st = (st, (ofSt role params st).serialize) := by
  rcases hs : st.started with _ | _
  · cases role <;> flow_leaf
  rcases ht : (ofSt role params st).toDict with e | dd
  · cases role <;> flow_leaf
  · cases role <;> flow_leaf

theorem serialize_tie_inst (i : Inst G) (d : Json.Dict) :
    ProtoFlow.serialize (mops i.params) (mdops (toRole i.side) i.params d) (toRole i.side) (toSt i) = (toSt i, i.serialize) := by
  rw [serialize_tie, ofSt_toSt]

/-! ### `_deserialize_from_dict` -/

theorem restore_tie_asym (role : Role) (hrole : role ≠ .S) (params : Params G) (d : Json.Dict) :
    fromDict (ofRole role) d params =
      (ProtoFlow.deserialize_from_dict (mops params) (mdops role params d) role).map (ofSt role params) := by
  have hside := side_tie role
  (
    rcases l1 : Json.lookup (asciiOf "password") d with _ | v1
    · cases role <;> flow_leaf
    rcases u1 : unhexlify v1 with _ | pw
    · cases role <;> flow_leaf
    rcases l2 : Json.lookup (asciiOf "idA") d with _ | v2
    · cases role <;> flow_leaf
    rcases u2 : unhexlify v2 with _ | idA
    · cases role <;> flow_leaf
    rcases l3 : Json.lookup (asciiOf "idB") d with _ | v3
    · cases role <;> flow_leaf
    rcases u3 : unhexlify v3 with _ | idB
    · cases role <;> flow_leaf
    rcases ls : Json.lookup (asciiOf "side") d with _ | sd
    · cases role <;> flow_leaf
    by_cases hsd : sd ≠ (ofRole role).byte
    · cases role <;> flow_leaf
    rcases l4 : Json.lookup (asciiOf "hashed_params") d with _ | hp
    · cases role <;> flow_leaf
    rcases hh : (Inst.new (G := G) (ofRole role) pw idA idB params ⟨[]⟩).hashParams with e | mine
    · cases role <;> flow_leaf
    by_cases hcmp : hp ≠ mine
    · cases role <;> flow_leaf
    rcases l5 : Json.lookup (asciiOf "xy_scalar") d with _ | v5
    · cases role <;> flow_leaf
    rcases u5 : unhexlify v5 with _ | xb
    · cases role <;> flow_leaf
    rcases hsc : G.scalarDec xb with e | x
    · cases role <;> flow_leaf
    rcases h1 : G.smul G.base x with e | xy
    · cases role <;> flow_leaf
    rcases h2 : G.smul (Inst.new (G := G) (ofRole role) pw idA idB params ⟨[]⟩).myBlinding (G.p2s pw) with e | bl
    · cases role <;> flow_leaf
    rcases h3 : G.add xy bl with e | m
    · cases role <;> flow_leaf
    · cases role <;> flow_leaf)

theorem restore_tie_sym (params : Params G) (d : Json.Dict) :
    fromDict .S d params =
      (ProtoFlow.deserialize_from_dict (mops params) (mdops .S params d) .S).map (ofSt .S params) := by
  (
    rcases ls : Json.lookup (asciiOf "side") d with _ | sd
    · flow_leaf
    by_cases hsd : sd ≠ Consts.sideS
    · flow_leaf
    rcases l1 : Json.lookup (asciiOf "password") d with _ | v1
    · flow_leaf
    rcases u1 : unhexlify v1 with _ | pw
    · flow_leaf
    rcases l2 : Json.lookup (asciiOf "idS") d with _ | v2
    · flow_leaf
    rcases u2 : unhexlify v2 with _ | idA
    · flow_leaf
    have idB : Bytes := []
    rcases l4 : Json.lookup (asciiOf "hashed_params") d with _ | hp
    · flow_leaf
    rcases hh : (Inst.new (G := G) Side.S pw idA [] params ⟨[]⟩).hashParams with e | mine
    · flow_leaf
    by_cases hcmp : hp ≠ mine
    · flow_leaf
    rcases l5 : Json.lookup (asciiOf "xy_scalar") d with _ | v5
    · flow_leaf
    rcases u5 : unhexlify v5 with _ | xb
    · flow_leaf
    rcases hsc : G.scalarDec xb with e | x
    · flow_leaf
    rcases h1 : G.smul G.base x with e | xy
    · flow_leaf
    rcases h2 : G.smul (Inst.new (G := G) Side.S pw idA [] params ⟨[]⟩).myBlinding (G.p2s pw) with e | bl
    · flow_leaf
    rcases h3 : G.add xy bl with e | m
    · flow_leaf
    · flow_leaf)

/-- both `_deserialize_from_dict`: same instance or same exception, for every dictionary -/
theorem restore_tie (role : Role) (params : Params G) (d : Json.Dict) :
    fromDict (ofRole role) d params =
      (ProtoFlow.deserialize_from_dict (mops params) (mdops role params d) role).map (ofSt role params) := by
  cases role
  · exact restore_tie_asym .A (by decide) params d
  · exact restore_tie_asym .B (by decide) params d
  · exact restore_tie_sym params d

/-! ### `__init__` -/

theorem init_flags_tie (side : Side) (pw idA idB : Bytes) (params : Params G) (ent : Entropy) :
    (Inst.new side pw idA idB params ent).started = ProtoFlow.init_started ∧
    (Inst.new side pw idA idB params ent).finished = ProtoFlow.init_finished := ⟨rfl, rfl⟩

/-! ### summary: the model's four operations as functions -/

/-- the translated `start` run on the attributes of a model instance, read back as a model step -/
def flowStart (i : Inst G) : Inst G × R Bytes :=
  let r := ProtoFlow.start (mops i.params) (toRole i.side) (toSt i)
  (ofSt (toRole i.side) i.params r.1, r.2)

/-- the translated `finish` -/
def flowFinish (i : Inst G) (msg : Bytes) : Inst G × R Bytes :=
  let r := ProtoFlow.finish (mops i.params) (toRole i.side) (toSt i) msg
  (ofSt (toRole i.side) i.params r.1, r.2)

/-- the translated `serialize` (new state, result); `_serialize_to_dict` + `json.dumps` are the model's -/
def flowSerialize (i : Inst G) : Inst G × R Bytes :=
  let r := ProtoFlow.serialize (mops i.params) (mdops (toRole i.side) i.params []) (toRole i.side) (toSt i)
  (ofSt (toRole i.side) i.params r.1, r.2)

/-- the translated `klass._deserialize_from_dict(d, params)` -/
def flowRestore (side : Side) (d : Json.Dict) (params : Params G) : R (Inst G) :=
  (ProtoFlow.deserialize_from_dict (mops params) (mdops (toRole side) params d) (toRole side)).map
    (ofSt (toRole side) params)

theorem start_is_source : @Inst.start G = flowStart := by
  funext i; exact start_tie_inst i

theorem finish_is_source : @Inst.finish G = flowFinish := by
  funext i msg; exact finish_tie_inst i msg

theorem serialize_is_source : (fun i : Inst G => (i, i.serialize)) = flowSerialize := by
  funext i; simp only [flowSerialize, serialize_tie_inst, ofSt_toSt]

theorem restore_is_source : @fromDict G = flowRestore := by
  funext side d params
  have h := restore_tie (toRole side) params d
  simpa [flowRestore] using h

end Spake2Verif.ProtoFlowTie
