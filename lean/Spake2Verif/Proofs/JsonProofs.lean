import Spake2Model.Model.Spake2
/-!
The JSON fragment used by `serialize()` / `from_serialized()`:
`parse ∘ dumps = id` on dictionaries of escape-free ASCII strings, independence of `parse`
from inter-token whitespace, `lookup` versus key order, the seven key constants, hex round trip.
Core Lean only.
-/
namespace Spake2Model
namespace Json

/-- ASCII 0x20..0x7f without `"` and `\` : exactly the bytes `strBody` accepts inside a string -/
def Clean (s : Bytes) : Prop := ∀ c ∈ s, 32 ≤ c ∧ c < 128 ∧ c ≠ 34 ∧ c ≠ 92

instance (s : Bytes) : Decidable (Clean s) := by unfold Clean; infer_instance

/-- all keys and all values are `Clean` -/
def CleanDict (d : Dict) : Prop := ∀ p ∈ d, Clean p.1 ∧ Clean p.2

/-- a string of JSON whitespace (space, tab, LF, CR) -/
def IsWs (w : Bytes) : Prop := ∀ c ∈ w, isWs c = true

instance (w : Bytes) : Decidable (IsWs w) := by unfold IsWs; infer_instance

def keys (d : Dict) : List Bytes := d.map Prod.fst

theorem clean_nil : Clean [] := by intro c hc; cases hc

theorem clean_cons {c : Nat} {s : Bytes} :
    Clean (c :: s) ↔ (32 ≤ c ∧ c < 128 ∧ c ≠ 34 ∧ c ≠ 92) ∧ Clean s := by
  unfold Clean; simp

theorem cleanDict_cons {p : Bytes × Bytes} {d : Dict} :
    CleanDict (p :: d) ↔ (Clean p.1 ∧ Clean p.2) ∧ CleanDict d := by
  unfold CleanDict; simp

theorem isWs_iff (c : Nat) : isWs c = true ↔ c = 32 ∨ c = 9 ∨ c = 10 ∨ c = 13 := by
  simp [isWs, or_assoc]

theorem isWs_nil : IsWs [] := by intro c hc; cases hc

theorem isWs_cons {c : Nat} {w : Bytes} : IsWs (c :: w) ↔ isWs c = true ∧ IsWs w := by
  unfold IsWs; simp

/-! ### `skipWs` absorbs whitespace and stops at every token -/

theorem skipWs_append {w : Bytes} (hw : IsWs w) (r : Bytes) : skipWs (w ++ r) = skipWs r := by
  induction w with
  | nil => rfl
  | cons c w ih =>
    rw [isWs_cons] at hw
    simp [skipWs, hw.1, ih hw.2]

theorem skipWs_of_isWs {w : Bytes} (hw : IsWs w) : skipWs w = [] := by
  have := skipWs_append hw []
  simpa [skipWs] using this

theorem skipWs_cons_of_not {c : Nat} (h : isWs c = false) (r : Bytes) : skipWs (c :: r) = c :: r := by
  simp [skipWs, h]

/-- whitespace before a structural token or a quote is skipped, and the token is then seen -/
theorem skipWs_token {w : Bytes} (hw : IsWs w) {c : Nat} (h : isWs c = false) (r : Bytes) :
    skipWs (w ++ c :: r) = c :: r := by
  rw [skipWs_append hw, skipWs_cons_of_not h]

theorem skipWs_idem (b : Bytes) : skipWs (skipWs b) = skipWs b := by
  induction b with
  | nil => rfl
  | cons c r ih =>
    by_cases h : isWs c = true
    · simp [skipWs, h, ih]
    · have h' : isWs c = false := by simpa using h
      simp [skipWs, h']

/-! ### strings -/

theorem strBody_clean {s : Bytes} (hs : Clean s) (r : Bytes) :
    strBody (s ++ 34 :: r) = some (s, r) := by
  induction s with
  | nil => simp [strBody]
  | cons c s ih =>
    rw [clean_cons] at hs
    obtain ⟨⟨h1, h2, h3, h4⟩, hs⟩ := hs
    have h5 : ¬ (c = 92 ∨ c < 32 ∨ c ≥ 128) := by omega
    simp [strBody, h3, h5, ih hs]

theorem str_quote {w s : Bytes} (hw : IsWs w) (hs : Clean s) (r : Bytes) :
    str (w ++ quote s ++ r) = some (s, r) := by
  have e : w ++ quote s ++ r = w ++ 34 :: (s ++ 34 :: r) := by simp [quote]
  rw [e, str, skipWs_token hw (by decide)]
  exact strBody_clean hs r

/-- `str` does not depend on leading whitespace (for arbitrary input) -/
theorem str_ws {w : Bytes} (hw : IsWs w) (b : Bytes) : str (w ++ b) = str b := by
  simp [str, skipWs_append hw]

/-! ### serialisation with arbitrary whitespace -/

/-- the four whitespace strings around one `"key": "value"` member -/
structure PairWs where
  beforeKey : Bytes
  afterKey : Bytes
  beforeVal : Bytes
  afterVal : Bytes

def PairWs.Ok (p : PairWs) : Prop :=
  IsWs p.beforeKey ∧ IsWs p.afterKey ∧ IsWs p.beforeVal ∧ IsWs p.afterVal

def memberWs (p : PairWs) (kv : Bytes × Bytes) : Bytes :=
  p.beforeKey ++ quote kv.1 ++ p.afterKey ++ [58] ++ p.beforeVal ++ quote kv.2 ++ p.afterVal

/-- the text between `{` and `}`; member number `i` uses `ws i`
(for the empty object: `(ws 0).beforeKey` is the whitespace between the braces) -/
def membersWs (ws : Nat → PairWs) : Dict → Bytes
  | [] => (ws 0).beforeKey
  | [kv] => memberWs (ws 0) kv
  | kv :: kv' :: rest => memberWs (ws 0) kv ++ [44] ++ membersWs (fun i => ws (i+1)) (kv' :: rest)

/-- `w0 { members } w1` with freely chosen whitespace at every position where JSON allows it -/
def dumpsWs (w0 w1 : Bytes) (ws : Nat → PairWs) (d : Dict) : Bytes :=
  w0 ++ [123] ++ membersWs ws d ++ [125] ++ w1

/-- the whitespace `json.dumps` itself emits: one space after `:` and after `,` -/
def stdWs : Nat → PairWs
  | 0 => ⟨[], [], [32], []⟩
  | _+1 => ⟨[32], [], [32], []⟩

theorem stdWs_ok (i : Nat) : (stdWs i).Ok := by
  cases i <;> simp [stdWs, PairWs.Ok, IsWs, isWs]

theorem membersWs_cons_cons (ws : Nat → PairWs) (kv kv' : Bytes × Bytes) (rest : Dict) :
    membersWs ws (kv :: kv' :: rest)
      = memberWs (ws 0) kv ++ [44] ++ membersWs (fun i => ws (i+1)) (kv' :: rest) := rfl

theorem membersWs_cons (ws : Nat → PairWs) (kv : Bytes × Bytes) (rest : Dict) (h : rest ≠ []) :
    membersWs ws (kv :: rest)
      = memberWs (ws 0) kv ++ [44] ++ membersWs (fun i => ws (i+1)) rest := by
  cases rest with
  | nil => exact absurd rfl h
  | cons kv' rest => rfl

theorem dumpsPairs_cons_cons (k v : Bytes) (p : Bytes × Bytes) (rest : Dict) :
    dumpsPairs ((k, v) :: p :: rest)
      = quote k ++ [58, 32] ++ quote v ++ [44, 32] ++ dumpsPairs (p :: rest) := by
  rw [dumpsPairs]
  intro h; cases h

private theorem membersWs_const (d : Dict) (h : d ≠ []) :
    membersWs (fun _ => (⟨[32], [], [32], []⟩ : PairWs)) d = 32 :: dumpsPairs d := by
  induction d with
  | nil => exact absurd rfl h
  | cons kv rest ih =>
    obtain ⟨k, v⟩ := kv
    cases rest with
    | nil => simp [membersWs, memberWs, dumpsPairs]
    | cons p rest =>
      rw [membersWs_cons_cons, dumpsPairs_cons_cons, ih (by simp)]
      simp [memberWs]

theorem membersWs_std (d : Dict) : membersWs stdWs d = dumpsPairs d := by
  cases d with
  | nil => rfl
  | cons kv rest =>
    obtain ⟨k, v⟩ := kv
    cases rest with
    | nil => simp [membersWs, memberWs, dumpsPairs, stdWs]
    | cons p rest =>
      rw [membersWs_cons_cons, dumpsPairs_cons_cons]
      have : (fun i => stdWs (i+1)) = (fun _ => (⟨[32], [], [32], []⟩ : PairWs)) := by
        funext i; rfl
      rw [this, membersWs_const _ (by simp)]
      simp [memberWs, stdWs]

/-- `json.dumps` is the instance of `dumpsWs` with the standard separators -/
theorem dumps_eq_dumpsWs (d : Dict) : dumps d = dumpsWs [] [] stdWs d := by
  simp [dumps, dumpsWs, membersWs_std]

/-! ### the parser on `dumpsWs` -/

/-- one member, followed by anything: the parser consumes it and continues on the next token -/
theorem members_member (fuel : Nat) {p : PairWs} (hp : p.Ok) {k v : Bytes}
    (hk : Clean k) (hv : Clean v) (t : Bytes) :
    members (fuel+1) (memberWs p (k, v) ++ t) =
      match skipWs t with
      | 44 :: r4 => match members fuel r4 with
        | some (d, r) => some ((k, v) :: d, r)
        | none => none
      | 125 :: r4 => some ([(k, v)], r4)
      | _ => none := by
  obtain ⟨h1, h2, h3, h4⟩ := hp
  have e : memberWs p (k, v) ++ t
      = p.beforeKey ++ quote k ++ (p.afterKey ++ 58 :: (p.beforeVal ++ quote v ++ (p.afterVal ++ t))) := by
    simp [memberWs]
  rw [e, members]
  simp only [str_quote h1 hk, skipWs_token h2 (show isWs 58 = false by decide),
    str_quote h3 hv, skipWs_append h4]
  rfl

theorem members_membersWs : ∀ (d : Dict) (fuel : Nat) (ws : Nat → PairWs) (r : Bytes),
    d ≠ [] → d.length ≤ fuel → CleanDict d → (∀ i, (ws i).Ok) →
    members fuel (membersWs ws d ++ 125 :: r) = some (d, r)
  | [], _, _, _, h, _, _, _ => absurd rfl h
  | [(k, v)], 0, _, _, _, hf, _, _ => by simp at hf
  | [(k, v)], fuel+1, ws, r, _, _, hd, hws => by
    rw [cleanDict_cons] at hd
    show members (fuel+1) (memberWs (ws 0) (k, v) ++ 125 :: r) = _
    rw [members_member fuel (hws 0) hd.1.1 hd.1.2, skipWs_cons_of_not (by decide)]
    rfl
  | (k, v) :: kv' :: rest, 0, _, _, _, hf, _, _ => by simp at hf
  | (k, v) :: kv' :: rest, fuel+1, ws, r, _, hf, hd, hws => by
    rw [cleanDict_cons] at hd
    have ih := members_membersWs (kv' :: rest) fuel (fun i => ws (i+1)) r (by simp)
      (by simpa using hf) hd.2 (fun i => hws (i+1))
    rw [membersWs_cons_cons]
    have e : memberWs (ws 0) (k, v) ++ [44] ++ membersWs (fun i => ws (i+1)) (kv' :: rest) ++ 125 :: r
        = memberWs (ws 0) (k, v) ++ (44 :: (membersWs (fun i => ws (i+1)) (kv' :: rest) ++ 125 :: r)) := by
      simp
    rw [e, members_member fuel (hws 0) hd.1.1 hd.1.2, skipWs_cons_of_not (by decide)]
    simp only [ih]

theorem length_le_membersWs : ∀ (d : Dict) (ws : Nat → PairWs), d.length ≤ (membersWs ws d).length
  | [], _ => by simp
  | [kv], ws => by simp [membersWs, memberWs, quote]; omega
  | kv :: kv' :: rest, ws => by
    have := length_le_membersWs (kv' :: rest) (fun i => ws (i+1))
    rw [membersWs_cons_cons]
    simp only [List.length_append, List.length_cons] at this ⊢
    omega

/-- for a non-empty object the first token after `{` is a quote -/
theorem skipWs_membersWs {d : Dict} (hd : d ≠ []) {ws : Nat → PairWs} (hws : ∀ i, (ws i).Ok)
    (x : Bytes) : ∃ t, skipWs (membersWs ws d ++ x) = 34 :: t := by
  have key : ∀ (p : PairWs) (kv : Bytes × Bytes) (y : Bytes), p.Ok →
      ∃ t, skipWs (memberWs p kv ++ y) = 34 :: t := by
    intro p kv y hp
    refine ⟨kv.1 ++ 34 :: (p.afterKey ++ 58 :: (p.beforeVal ++ quote kv.2 ++ p.afterVal ++ y)), ?_⟩
    have e : memberWs p kv ++ y = p.beforeKey ++
        34 :: (kv.1 ++ 34 :: (p.afterKey ++ 58 :: (p.beforeVal ++ quote kv.2 ++ p.afterVal ++ y))) := by
      simp [memberWs, quote]
    rw [e, skipWs_token hp.1 (by decide)]
  match d, hd with
  | [kv], _ => exact key _ _ _ (hws 0)
  | kv :: kv' :: rest, _ =>
    rw [membersWs_cons_cons]
    simp only [List.append_assoc]
    exact key _ _ _ (hws 0)

/-- **Whitespace independence and round trip.**  Whatever whitespace is put before `{`, after `}`,
and before/after every key, colon, value and comma, the parser returns the dictionary. -/
theorem parse_dumpsWs {w0 w1 : Bytes} {ws : Nat → PairWs} {d : Dict}
    (h0 : IsWs w0) (h1 : IsWs w1) (hws : ∀ i, (ws i).Ok) (hd : CleanDict d) :
    parse (dumpsWs w0 w1 ws d) = some d := by
  have e : dumpsWs w0 w1 ws d = w0 ++ 123 :: (membersWs ws d ++ 125 :: w1) := by
    simp [dumpsWs]
  by_cases hne : d = []
  · subst hne
    rw [e, parse, skipWs_token h0 (by decide)]
    simp only [membersWs, skipWs_token (hws 0).1 (show isWs 125 = false by decide),
      skipWs_of_isWs h1]
    rfl
  · obtain ⟨t, ht⟩ := skipWs_membersWs hne hws (125 :: w1)
    have hfuel : d.length ≤ (dumpsWs w0 w1 ws d).length + 1 := by
      have := length_le_membersWs d ws
      rw [e]; simp only [List.length_append, List.length_cons]; omega
    have hm := members_membersWs d _ ws w1 hne hfuel hd hws
    rw [parse]
    rw [e] at hm ⊢
    rw [skipWs_token h0 (by decide)]
    simp only [ht, hm, skipWs_of_isWs h1]
    rfl

/-- (a) `json.loads(json.dumps(d)) == d` (also for the empty dictionary) -/
theorem parse_dumps {d : Dict} (hd : CleanDict d) : parse (dumps d) = some d := by
  rw [dumps_eq_dumpsWs]
  exact parse_dumpsWs isWs_nil isWs_nil stdWs_ok hd

/-- (c) leading/trailing whitespace around the standard serialisation -/
theorem parse_ws_dumps_ws {w1 w2 : Bytes} {d : Dict} (h1 : IsWs w1) (h2 : IsWs w2)
    (hd : CleanDict d) : parse (w1 ++ dumps d ++ w2) = some d := by
  have e : w1 ++ dumps d ++ w2 = dumpsWs w1 w2 stdWs d := by
    simp [dumps, dumpsWs, membersWs_std]
  rw [e]
  exact parse_dumpsWs h1 h2 stdWs_ok hd

/-! ### (b) the bytes of `dumps d` -/

theorem mem_dumpsPairs : ∀ (d : Dict) (c : Nat), c ∈ dumpsPairs d →
    c ∈ [34, 58, 32, 44] ∨ ∃ p ∈ d, c ∈ p.1 ∨ c ∈ p.2
  | [], c, h => by simp [dumpsPairs] at h
  | [(k, v)], c, h => by
    simp only [dumpsPairs, quote, List.mem_append, List.mem_cons, List.not_mem_nil, or_false] at h
    simp only [List.mem_cons, List.not_mem_nil, or_false, exists_eq_left]
    grind
  | (k, v) :: p :: rest, c, h => by
    rw [dumpsPairs_cons_cons] at h
    simp only [quote, List.mem_append, List.mem_cons, List.not_mem_nil, or_false] at h
    rcases h with h | h
    · simp only [List.mem_cons, List.not_mem_nil, or_false, exists_eq_or_imp]
      grind
    · rcases mem_dumpsPairs (p :: rest) c h with h' | ⟨q, hq, h'⟩
      · exact Or.inl h'
      · exact Or.inr ⟨q, List.mem_cons_of_mem _ hq, h'⟩

/-- every byte of `dumps d` is a structural byte or a byte of some key or value -/
theorem mem_dumps {d : Dict} {c : Nat} (h : c ∈ dumps d) :
    c ∈ [123, 125, 34, 58, 32, 44] ∨ ∃ p ∈ d, c ∈ p.1 ∨ c ∈ p.2 := by
  simp only [dumps, List.mem_append, List.mem_cons, List.not_mem_nil, or_false] at h
  rcases h with (h | h) | h
  · subst h; simp
  · rcases mem_dumpsPairs d c h with h' | h'
    · left; simp only [List.mem_cons, List.not_mem_nil, or_false] at h' ⊢; omega
    · exact Or.inr h'
  · subst h; simp

/-- the output of `dumps` is 7-bit ASCII without control characters below 0x20
(so `from_serialized`'s `.decode("ascii")` / `data.any (· ≥ 128)` test passes) -/
theorem dumps_ascii {d : Dict} (hd : CleanDict d) : ∀ c ∈ dumps d, 32 ≤ c ∧ c < 128 := by
  intro c hc
  rcases mem_dumps hc with h | ⟨p, hp, h | h⟩
  · simp only [List.mem_cons, List.not_mem_nil, or_false] at h; omega
  · have := (hd p hp).1 c h; omega
  · have := (hd p hp).2 c h; omega

/-- (b) printable: bytes 0x20..0x7e, provided no key or value contains DEL (0x7f).
`Clean` as specified admits 0x7f (the parser accepts it inside strings), hence the extra hypothesis. -/
theorem dumps_printable {d : Dict} (hd : CleanDict d)
    (hdel : ∀ p ∈ d, 127 ∉ p.1 ∧ 127 ∉ p.2) : ∀ c ∈ dumps d, 32 ≤ c ∧ c ≤ 126 := by
  intro c hc
  rcases mem_dumps hc with h | ⟨p, hp, h | h⟩
  · simp only [List.mem_cons, List.not_mem_nil, or_false] at h; omega
  · have := (hd p hp).1 c h
    have : c ≠ 127 := fun e => (hdel p hp).1 (e ▸ h)
    omega
  · have := (hd p hp).2 c h
    have : c ≠ 127 := fun e => (hdel p hp).2 (e ▸ h)
    omega

theorem dumps_no_high {d : Dict} (hd : CleanDict d) : (dumps d).any (· ≥ 128) = false := by
  rw [List.any_eq_false]
  intro c hc
  have := dumps_ascii hd c hc
  simp; omega

theorem mem_memberWs {p : PairWs} (hp : p.Ok) {kv : Bytes × Bytes} {c : Nat}
    (h : c ∈ memberWs p kv) : isWs c = true ∨ c = 34 ∨ c = 58 ∨ c ∈ kv.1 ∨ c ∈ kv.2 := by
  obtain ⟨h1, h2, h3, h4⟩ := hp
  simp only [memberWs, quote, List.mem_append, List.mem_cons, List.not_mem_nil, or_false] at h
  have := h1 c; have := h2 c; have := h3 c; have := h4 c
  grind

theorem mem_membersWs : ∀ (d : Dict) (ws : Nat → PairWs), (∀ i, (ws i).Ok) → ∀ c, c ∈ membersWs ws d →
    isWs c = true ∨ c = 34 ∨ c = 58 ∨ c = 44 ∨ ∃ p ∈ d, c ∈ p.1 ∨ c ∈ p.2
  | [], ws, hws, c, h => Or.inl ((hws 0).1 c h)
  | [kv], ws, hws, c, h => by
    have := mem_memberWs (hws 0) (show c ∈ memberWs (ws 0) kv from h)
    simp only [List.mem_cons, List.not_mem_nil, or_false, exists_eq_left]
    grind
  | kv :: kv' :: rest, ws, hws, c, h => by
    rw [membersWs_cons_cons] at h
    simp only [List.mem_append, List.mem_cons, List.not_mem_nil, or_false] at h
    rcases h with (h | h) | h
    · have := mem_memberWs (hws 0) h
      have : (∃ p ∈ kv :: kv' :: rest, c ∈ p.1 ∨ c ∈ p.2) ∨ ¬ (c ∈ kv.1 ∨ c ∈ kv.2) := by
        by_cases hc : c ∈ kv.1 ∨ c ∈ kv.2
        · exact Or.inl ⟨kv, List.mem_cons_self, hc⟩
        · exact Or.inr hc
      grind
    · exact Or.inr (Or.inr (Or.inr (Or.inl h)))
    · rcases mem_membersWs (kv' :: rest) (fun i => ws (i+1)) (fun i => hws (i+1)) c h with
        h' | h' | h' | h' | ⟨q, hq, h'⟩
      · exact Or.inl h'
      · exact Or.inr (Or.inl h')
      · exact Or.inr (Or.inr (Or.inl h'))
      · exact Or.inr (Or.inr (Or.inr (Or.inl h')))
      · exact Or.inr (Or.inr (Or.inr (Or.inr ⟨q, List.mem_cons_of_mem _ hq, h'⟩)))

/-- with arbitrary whitespace the text is still 7-bit ASCII -/
theorem dumpsWs_ascii {w0 w1 : Bytes} {ws : Nat → PairWs} {d : Dict}
    (h0 : IsWs w0) (h1 : IsWs w1) (hws : ∀ i, (ws i).Ok) (hd : CleanDict d) :
    ∀ c ∈ dumpsWs w0 w1 ws d, c < 128 := by
  intro c hc
  have wsb : isWs c = true → c < 128 := by rw [isWs_iff]; omega
  simp only [dumpsWs, List.mem_append, List.mem_cons, List.not_mem_nil, or_false] at hc
  rcases hc with (((hc | hc) | hc) | hc) | hc
  · exact wsb (h0 c hc)
  · omega
  · rcases mem_membersWs d ws hws c hc with h | h | h | h | ⟨p, hp, h | h⟩
    · exact wsb h
    · omega
    · omega
    · omega
    · exact ((hd p hp).1 c h).2.1
    · exact ((hd p hp).2 c h).2.1
  · omega
  · exact wsb (h1 c hc)

theorem dumpsWs_no_high {w0 w1 : Bytes} {ws : Nat → PairWs} {d : Dict}
    (h0 : IsWs w0) (h1 : IsWs w1) (hws : ∀ i, (ws i).Ok) (hd : CleanDict d) :
    (dumpsWs w0 w1 ws d).any (· ≥ 128) = false := by
  rw [List.any_eq_false]
  intro c hc
  have := dumpsWs_ascii h0 h1 hws hd c hc
  simp; omega

/-! ### (d) `lookup` -/

theorem lookup_eq_none_iff {k : Bytes} : ∀ {d : Dict}, lookup k d = none ↔ k ∉ keys d
  | [] => by simp [lookup, keys]
  | (k', v) :: rest => by
    have ih := @lookup_eq_none_iff k rest
    unfold lookup
    cases h : lookup k rest with
    | some v' =>
      have : k ∈ keys rest := by
        apply Classical.byContradiction; intro hc
        rw [ih.mpr hc] at h; cases h
      simp [keys] at this ⊢
      exact fun _ => this
    | none =>
      have hk := ih.mp h
      simp only [keys, List.map_cons, List.mem_cons, not_or] at hk ⊢
      by_cases e : k' = k
      · simp [e]
      · simp only [e, if_false, true_iff]
        exact ⟨fun e' => e e'.symm, hk⟩

/-- whatever `lookup` returns is paired with the key in the dictionary -/
theorem mem_of_lookup {k v : Bytes} : ∀ {d : Dict}, lookup k d = some v → (k, v) ∈ d
  | [], h => by simp [lookup] at h
  | (k', v') :: rest, h => by
    unfold lookup at h
    cases h' : lookup k rest with
    | some w =>
      rw [h'] at h
      simp only [Option.some.injEq] at h
      subst h
      exact List.mem_cons_of_mem _ (mem_of_lookup h')
    | none =>
      rw [h'] at h
      by_cases e : k' = k
      · simp only [e, if_true, Option.some.injEq] at h
        subst h; subst e; exact List.mem_cons_self
      · simp [e] at h

/-- with pairwise distinct keys, `lookup k` returns the value paired with `k` -/
theorem lookup_of_mem {k v : Bytes} {d : Dict} (hn : (keys d).Nodup) (h : (k, v) ∈ d) :
    lookup k d = some v := by
  cases hl : lookup k d with
  | none =>
    have := lookup_eq_none_iff.mp hl
    exact absurd (List.mem_map.mpr ⟨(k, v), h, rfl⟩) this
  | some w =>
    have hw := mem_of_lookup hl
    -- two pairs with the same key in a key-nodup list are equal
    have : ∀ (d : Dict), (keys d).Nodup → (k, v) ∈ d → (k, w) ∈ d → w = v := by
      intro d
      induction d with
      | nil => intro _ h; cases h
      | cons p rest ih =>
        intro hn h1 h2
        simp only [keys, List.map_cons, List.nodup_cons] at hn
        rcases List.mem_cons.mp h1 with e1 | h1 <;> rcases List.mem_cons.mp h2 with e2 | h2
        · rw [← e1] at e2; exact (Prod.mk.inj e2).2
        · exact absurd (List.mem_map.mpr ⟨(k, w), h2, by rw [← e1]⟩) hn.1
        · exact absurd (List.mem_map.mpr ⟨(k, v), h1, by rw [← e2]⟩) hn.1
        · exact ih hn.2 h1 h2
    rw [this d hn h hw]

theorem lookup_eq_some_iff {k v : Bytes} {d : Dict} (hn : (keys d).Nodup) :
    lookup k d = some v ↔ (k, v) ∈ d :=
  ⟨mem_of_lookup, lookup_of_mem hn⟩

/-- with pairwise distinct keys the order of the members does not matter -/
theorem lookup_perm {k : Bytes} {d d' : Dict} (hn : (keys d).Nodup) (hp : d'.Perm d) :
    lookup k d' = lookup k d := by
  have hn' : (keys d').Nodup := (hp.map Prod.fst).nodup_iff.mpr hn
  cases h : lookup k d with
  | none =>
    rw [lookup_eq_none_iff] at h ⊢
    exact fun hm => h ((hp.map Prod.fst).mem_iff.mp hm)
  | some v =>
    rw [lookup_eq_some_iff hn] at h
    rw [lookup_eq_some_iff hn']
    exact hp.mem_iff.mpr h

/-- (a)+(d): reading key `k` from the parsed serialisation of any reordering `d'` of `d`
gives `lookup k d` -/
theorem lookup_dumps {k : Bytes} {d d' : Dict} (hd : CleanDict d) (hn : (keys d).Nodup)
    (hp : d'.Perm d) : (parse (dumps d')).bind (lookup k) = lookup k d := by
  have hd' : CleanDict d' := fun p hp' => hd p (hp.mem_iff.mp hp')
  rw [parse_dumps hd', Option.bind_some, lookup_perm hn hp]

/-- the same with arbitrary whitespace everywhere -/
theorem lookup_dumpsWs {k w0 w1 : Bytes} {ws : Nat → PairWs} {d d' : Dict}
    (h0 : IsWs w0) (h1 : IsWs w1) (hws : ∀ i, (ws i).Ok)
    (hd : CleanDict d) (hn : (keys d).Nodup) (hp : d'.Perm d) :
    (parse (dumpsWs w0 w1 ws d')).bind (lookup k) = lookup k d := by
  have hd' : CleanDict d' := fun p hp' => hd p (hp.mem_iff.mp hp')
  rw [parse_dumpsWs h0 h1 hws hd', Option.bind_some, lookup_perm hn hp]

/-! ### (e) the seven key names -/

def allKeys : List Bytes :=
  [k_hashed_params, k_side, k_idA, k_idB, k_idS, k_password, k_xy_scalar]

theorem allKeys_clean : ∀ k ∈ allKeys, Clean k := by decide

theorem allKeys_nodup : allKeys.Nodup := by decide

theorem allKeys_pairwise : allKeys.Pairwise (· ≠ ·) := allKeys_nodup

theorem allKeys_no_del : ∀ k ∈ allKeys, 127 ∉ k := by decide

theorem key_constants_clean :
    Clean k_hashed_params ∧ Clean k_side ∧ Clean k_idA ∧ Clean k_idB ∧ Clean k_idS ∧
    Clean k_password ∧ Clean k_xy_scalar := by decide

theorem key_constants_distinct :
    [k_hashed_params, k_side, k_idA, k_idB, k_idS, k_password, k_xy_scalar].Pairwise (· ≠ ·) := by
  decide

end Json

/-! ### hex (kept in its own namespace; `BytesLemmas.lean` has overlapping lemmas) -/
namespace JsonAux
open Json

theorem hexVal_hexDigit : ∀ d, d < 16 → hexVal? (hexDigit d) = some d := by decide

theorem hexDigit_clean : ∀ d, d < 16 →
    (32 ≤ hexDigit d ∧ hexDigit d < 128 ∧ hexDigit d ≠ 34 ∧ hexDigit d ≠ 92) ∧ hexDigit d ≠ 127 := by
  decide

theorem hexlify_clean : ∀ (b : Bytes), IsBytes b → Clean (hexlify b)
  | [], _ => clean_nil
  | x :: xs, h => by
    have hx : x < 256 := h x List.mem_cons_self
    have hxs : IsBytes xs := fun y hy => h y (List.mem_cons_of_mem _ hy)
    rw [hexlify, clean_cons, clean_cons]
    exact ⟨(hexDigit_clean _ (by omega)).1, (hexDigit_clean _ (by omega)).1, hexlify_clean xs hxs⟩

theorem hexlify_no_del : ∀ (b : Bytes), IsBytes b → 127 ∉ hexlify b
  | [], _ => by simp [hexlify]
  | x :: xs, h => by
    have hx : x < 256 := h x List.mem_cons_self
    have hxs : IsBytes xs := fun y hy => h y (List.mem_cons_of_mem _ hy)
    rw [hexlify]
    simp only [List.mem_cons, not_or]
    exact ⟨fun e => (hexDigit_clean _ (by omega)).2 e.symm,
      fun e => (hexDigit_clean _ (by omega)).2 e.symm, hexlify_no_del xs hxs⟩

theorem unhexlify_hexlify : ∀ (b : Bytes), IsBytes b → unhexlify (hexlify b) = some b
  | [], _ => rfl
  | x :: xs, h => by
    have hx : x < 256 := h x List.mem_cons_self
    have hxs : IsBytes xs := fun y hy => h y (List.mem_cons_of_mem _ hy)
    rw [hexlify, unhexlify, hexVal_hexDigit _ (by omega), hexVal_hexDigit _ (by omega),
      unhexlify_hexlify xs hxs]
    simp only [Option.some.injEq, List.cons.injEq, and_true]
    omega

end JsonAux
end Spake2Model

section Audit
open Spake2Model Spake2Model.Json Spake2Model.JsonAux
#print axioms parse_dumpsWs
#print axioms parse_dumps
#print axioms parse_ws_dumps_ws
#print axioms skipWs_token
#print axioms dumps_ascii
#print axioms dumps_printable
#print axioms dumpsWs_ascii
#print axioms lookup_of_mem
#print axioms lookup_perm
#print axioms lookup_dumps
#print axioms lookup_dumpsWs
#print axioms key_constants_clean
#print axioms key_constants_distinct
#print axioms hexlify_clean
#print axioms unhexlify_hexlify
end Audit
