import Spake2Verif.Spec.Ed25519Inst
import Spake2Verif.Spec.IntGroupSpec
import Spake2Verif.Spec.CurveCard
/-!
Auxiliary lemmas for the property files C18 / C14: the constructor check, `arbitrary_element` on Ed25519 never
returns the identity object, parameter sets built by `mkParams` consist of valid elements, distinct encodings mean
distinct group elements.
-/
namespace Spake2Verif.PropAuxB
open Spake2Model Spake2Model.Gen

/-! ### the constructor's order check -/

theorem ctor_ok_of_ctor {P : IntGroupParams} (h : IG.ctor P = .ok ()) :
    IntGroup.ctor_ok P.p P.q P.g = true := by
  unfold IG.ctor at h
  cases hc : IntGroup.ctor_ok P.p P.q P.g
  · rw [hc] at h; cases h
  · rfl

/-- an accepted generator has `g^q = 1` in `ZMod p`: its order divides `q` -/
theorem ctor_order_dvd {P : IntGroupParams} (hp : 1 < P.p) (hq : 0 ≤ P.q) (h : IG.ctor P = .ok ()) :
    Py.pow3 P.g P.q P.p = 1 ∧ (P.g : ZMod P.p.toNat) ^ P.q.toNat = 1 ∧
      orderOf (P.g : ZMod P.p.toNat) ∣ P.q.toNat := by
  have h1 : Py.pow3 P.g P.q P.p = 1 := by
    have := ctor_ok_of_ctor h
    simpa [IntGroup.ctor_ok] using this
  have h2 := (IntGroupSpec.pow3_eq_one_iff hp hq P.g).1 h1
  exact ⟨h1, h2, orderOf_dvd_of_pow_eq_one h2⟩

/-- a rejected generator: the constructor raises `AssertionError` -/
theorem ctor_rejects {P : IntGroupParams} (h : Py.pow3 P.g P.q P.p ≠ 1) :
    IG.ctor P = raise .AssertionError := by
  unfold IG.ctor
  have : IntGroup.ctor_ok P.p P.q P.g = false := by simp [IntGroup.ctor_ok, h]
  rw [this]; rfl

/-! ### Ed25519 `arbitrary_element` returns `Element` objects (never the `Zero` object) -/

theorem arbLoop_kind (c : Curve) (y : ℤ) : ∀ (fuel : ℕ) (plus : ℤ) (e : EdElem),
    Ed25519.arbLoop c y fuel plus = .ok e → e.kind = .elem := by
  intro fuel
  induction fuel with
  | zero => intro plus e he; simp [Ed25519.arbLoop, raise] at he
  | succ fuel ih =>
    intro plus e he
    rw [Ed25519.arbLoop] at he
    simp only at he
    split at he
    · exact ih _ _ he
    · split at he
      · exact ih _ _ he
      · split at he
        · injection he with he; subst he; rfl
        · simp [raise] at he

theorem arb_kind (c : Curve) (seed : Bytes) (e : EdElem) (he : Ed25519.arb c seed = .ok e) :
    e.kind = .elem := by
  unfold Ed25519.arb at he
  simp only at he
  split at he
  · cases he
  · exact arbLoop_kind c _ _ _ _ he

/-- on Ed25519 `arbitrary_element` returns a valid, **non-identity** element of the subgroup -/
theorem ed_arb_member (c : Curve) (h : CurveOK c) (seed : Bytes) (e : EdElem)
    (he : (edGroup c).arb seed = .ok e) :
    (ed25519Spec c h).Valid e ∧ (ed25519Spec c h).abs e ≠ 0 ∧
      ((ed25519Spec c h).q : ℤ) • (ed25519Spec c h).abs e = 0 := by
  have v := (ed25519Spec c h).arb_valid seed e he
  refine ⟨v, ?_, (ed25519Spec c h).order_smul e v⟩
  intro h0
  have hz := (Ed25519Spec.abs_eq_zero_iff c h e v).1 h0
  have hk := arb_kind c seed e he
  rw [hz] at hk
  cases hk

/-! ### parameter sets -/

variable {G : Group}

theorem mkParams_inv {m n s : Bytes} {P : Params G} (h : mkParams G m n s = .ok P) :
    G.arb m = .ok P.M ∧ G.arb n = .ok P.N ∧ G.arb s = .ok P.S := by
  unfold mkParams at h
  cases hm : G.arb m with
  | error e => simp [hm, bind, Except.bind] at h
  | ok M =>
    cases hn : G.arb n with
    | error e => simp [hm, hn, bind, Except.bind] at h
    | ok N =>
      cases hs : G.arb s with
      | error e => simp [hm, hn, hs, bind, Except.bind] at h
      | ok S =>
        simp only [hm, hn, hs, bind, Except.bind, pure, Except.pure, Except.ok.injEq] at h
        subst h
        exact ⟨rfl, rfl, rfl⟩

theorem mkParams_valid (S : GroupSpec G) {m n s : Bytes} {P : Params G}
    (h : mkParams G m n s = .ok P) : S.Valid P.M ∧ S.Valid P.N ∧ S.Valid P.S := by
  obtain ⟨hm, hn, hs⟩ := mkParams_inv h
  exact ⟨S.arb_valid _ _ hm, S.arb_valid _ _ hn, S.arb_valid _ _ hs⟩

/-- different encodings ⇒ different group elements -/
theorem abs_ne_of_enc_ne (S : GroupSpec G) {a b : G.Elem} (va : S.Valid a) (vb : S.Valid b)
    (h : G.enc a ≠ G.enc b) : S.abs a ≠ S.abs b ∧ a ≠ b :=
  ⟨fun he => h ((S.enc_inj a b va vb).2 he), fun he => h (by rw [he])⟩

end Spake2Verif.PropAuxB
