import Spake2Verif.Proofs.EdEncode
import Spake2Verif.Proofs.EdXrecover

/-!
# The Ed25519 point codec: `xrecover`, `encodepoint`/`to_bytes`, `decodepoint`

Summary of `EdCurveOK` (the side conditions `CurveOK c`), `EdEncode` (encoding, injectivity,
soundness of decoding) and `EdXrecover` (the square root), plus the round trip
`decodepoint(encoding of P) = (P.x.val, P.y.val)`.
-/
namespace Spake2Verif
open Spake2Model Spake2Model.Gen Spake2Verif.Edw Spake2Verif.EdBridge
open PyBits

namespace CurveOK
variable {c : Curve} [Fact c.Q.toNat.Prime] (h : CurveOK c)
include h

/-- `xrecover(y)` is always an even integer in `[0, Q)`, and satisfies the curve equation with
`y` whenever some `x` does -/
theorem xrecover_spec (y : ℤ) :
    (0 ≤ Ed.xrecover c.Q c.d c.I y ∧ Ed.xrecover c.Q c.d c.I y < c.Q ∧
        Ed.xrecover c.Q c.d c.I y % 2 = 0) ∧
      ((∃ x0 : ZMod c.Q.toNat, OnCurve (c.d : ZMod c.Q.toNat) x0 (y : ZMod c.Q.toNat)) →
        Ed.isoncurve c.Q c.d (Ed.xrecover c.Q c.d c.I y, y) = true) := by
  have := EdBridge.xrecover_spec (EC h) c.d c.I rfl rfl h.Qn_mod8 y
  rw [h.Q_cast] at this
  refine ⟨this.1, fun hex => ?_⟩
  rw [h.oncurve_iff]
  exact this.2 hex

/-- for a curve point `P`, `xrecover(P.y)` is the even one of `P.x.val`, `Q - P.x.val` -/
theorem xrecover_point (P : Point (EC h)) :
    Ed.xrecover c.Q c.d c.I (P.y.val : ℤ) =
      if P.x.val % 2 = 0 then (P.x.val : ℤ) else c.Q - (P.x.val : ℤ) := by
  have := EdBridge.xrecover_point (EC h) c.d c.I rfl rfl h.Qn_mod8 P
  rwa [h.Q_cast] at this

/-- the canonical coordinates of a point pass `isoncurve` -/
theorem isoncurve_val (P : Point (EC h)) :
    Ed.isoncurve c.Q c.d ((P.x.val : ℤ), (P.y.val : ℤ)) = true := by
  have : NeZero c.Q.toNat := ⟨(Fact.out : c.Q.toNat.Prime).ne_zero⟩
  rw [h.oncurve_iff]
  show OnCurve _ (((P.x.val : ℕ) : ℤ) : ZMod c.Q.toNat) (((P.y.val : ℕ) : ℤ) : ZMod c.Q.toNat)
  rw [Int.cast_natCast, Int.cast_natCast, ZMod.natCast_zmod_val, ZMod.natCast_zmod_val]
  exact P.on

/-- decoding the canonical encoding of a point returns its canonical coordinates -/
theorem decode_encode (P : Point (EC h)) :
    Ed25519.decodepoint c (encP h P) = .ok ((P.x.val : ℤ), (P.y.val : ℤ)) := by
  have hlen := encP_length h P
  have htake : (encP h P).take 32 = encP h P := List.take_of_length_le (by rw [hlen])
  have hne : (encP h P).isEmpty = false := by
    cases hE : encP h P with
    | nil => rw [hE] at hlen; simp at hlen
    | cons _ _ => rfl
  have hval : leToNat (encP h P) = encN h P := leToNat_natToLE_of_lt (h.encN_lt P)
  have hylt := h.val_lt_255 P.y
  have hy : (Int.ofNat (encN h P)) % 2 ^ 255 = (P.y.val : ℤ) := by
    unfold encN
    simp only [Int.ofNat_eq_natCast]
    push_cast
    omega
  have hsign : Py.band (Int.ofNat (encN h P)) (2 ^ 255) ≠ 0 ↔ P.x.val % 2 = 1 := by
    rw [band_top_ne_zero]
    unfold encN
    simp only [Int.ofNat_eq_natCast]
    push_cast
    omega
  have hxr := h.xrecover_point P
  have hon := h.isoncurve_val P
  have hQodd : c.Q % 2 = 1 := by have := h.Q_mod8; omega
  have hxlt := h.val_lt P.x
  unfold Ed25519.decodepoint
  simp only [htake, hne, hval, shl_1_255, band_clamp, Py.band_one, hy, hxr]
  by_cases hp : P.x.val % 2 = 0
  · have hs : ¬ (Py.band (Int.ofNat (encN h P)) (2 ^ 255) ≠ 0) := by rw [hsign]; omega
    have he : ((P.x.val : ℕ) : ℤ) % 2 = 0 := by omega
    simp only [hp, if_true, he, hs, ne_eq, not_true_eq_false, decide_false, bne_self_eq_false,
      Bool.false_eq_true, if_false, hon]
  · have hs : (Py.band (Int.ofNat (encN h P)) (2 ^ 255) ≠ 0) := by rw [hsign]; omega
    have he : (c.Q - ((P.x.val : ℕ) : ℤ)) % 2 = 0 := by omega
    simp only [hp, if_false, he, hs, ne_eq, not_true_eq_false, decide_false, not_false_eq_true,
      decide_true, Bool.false_bne, if_true, sub_sub_cancel, hon, Bool.false_eq_true, if_false]

end CurveOK

/-! ## Summary (property-level statements) -/

#print axioms CurveOK.xrecover_spec
#print axioms CurveOK.xrecover_point
#print axioms encodepoint_spec
#print axioms CurveOK.toBytes_rep
#print axioms CurveOK.toBytes_length
#print axioms CurveOK.toBytes_eq_iff
#print axioms CurveOK.decodepoint_sound
#print axioms CurveOK.decode_encode

end Spake2Verif

