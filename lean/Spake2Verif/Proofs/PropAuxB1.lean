import Spake2Verif.Spec.Ed25519Inst
import Spake2Verif.Spec.IntGroupSpec
/-!
Auxiliary lemmas for the property files C15 / C13 / C14: explicit scalar and element layouts.
-/
namespace Spake2Verif.PropAuxB
open Spake2Model Spake2Model.Gen

/-! ### integer-group scalar codec -/

theorem ig_scalarEnc_eq (P : IntGroupParams) {x : Int} (h0 : 0 ≤ x) (h1 : x ≤ P.q) :
    IG.scalarEnc P x = .ok (natToBE (sizeBytes P.q) x.toNat) :=
  numberToBytes_ok h0 h1

theorem ig_scalarDec_enc (P : IntGroupParams) {x : Int} (h0 : 0 ≤ x) (h1 : x < P.q) :
    IG.scalarDec P (natToBE (sizeBytes P.q) x.toNat) = .ok x := by
  obtain ⟨b, hb, _, _, hd⟩ := IntGroupSpec.scalar_rt (P := P) x h0 h1
  rw [ig_scalarEnc_eq P h0 (le_of_lt h1)] at hb
  cases hb; exact hd

theorem ig_scalarDec_sound (P : IntGroupParams) {b : Bytes} {x : Int} (hb : IsBytes b)
    (h : IG.scalarDec P b = .ok x) :
    b.length = sizeBytes P.q ∧ x = (beToNat b : Int) ∧ 0 ≤ x ∧ x < P.q ∧ IG.scalarEnc P x = .ok b := by
  unfold IG.scalarDec at h
  split at h
  · cases h
  · next hlen =>
    have hlen : b.length = sizeBytes P.q := by simpa [IG.scalarSize] using hlen
    split at h
    · cases h
    · next i hi =>
      split at h
      · next hr =>
        cases h
        have hne : b ≠ [] := by rintro rfl; cases hi
        have hv := hi
        rw [bytesToNumber_ok hne] at hv
        cases hv
        exact ⟨hlen, rfl, hr.1, hr.2, numberToBytes_bytesToNumber hb hlen hi (le_of_lt hr.2)⟩
      · cases h

/-! ### Ed25519 scalar codec -/

theorem ed_scalarEnc_eq (c : Curve) (hL : c.L < 2 ^ 256) {x : Int} (h0 : 0 ≤ x) (h1 : x < c.L) :
    Ed25519.scalarEnc c x = .ok (natToLE 32 x.toNat) := by
  have hx : x % c.L = x := Int.emod_eq_of_lt h0 h1
  unfold Ed25519.scalarEnc
  simp only [hx]
  rw [if_neg (not_not.2 ⟨h0, lt_trans h1 hL⟩)]

theorem ed_scalarDec_enc {x : Int} (h0 : 0 ≤ x) (h1 : x < 2 ^ 256) :
    Ed25519.scalarDec (natToLE 32 x.toNat) = .ok x := by
  have hlt : x.toNat < 256 ^ 32 := by
    have : (256 : ℕ) ^ 32 = 2 ^ 256 := by norm_num
    omega
  unfold Ed25519.scalarDec
  rw [if_neg (by rw [natToLE_length]; exact fun hh => hh rfl), leToNat_natToLE_of_lt hlt]
  congr 1
  exact Int.toNat_of_nonneg h0

theorem ed_scalarDec_sound {b : Bytes} {x : Int} (h : Ed25519.scalarDec b = .ok x) :
    b.length = 32 ∧ x = (leToNat b : Int) := by
  unfold Ed25519.scalarDec at h
  split at h
  · cases h
  · next hlen =>
    cases h
    exact ⟨by simpa using hlen, rfl⟩

theorem ed_scalarEnc_dec (c : Curve) (hL : c.L < 2 ^ 256) {b : Bytes} {x : Int} (hb : IsBytes b)
    (h : Ed25519.scalarDec b = .ok x) (hx : x < c.L) : Ed25519.scalarEnc c x = .ok b := by
  obtain ⟨hlen, rfl⟩ := ed_scalarDec_sound h
  rw [ed_scalarEnc_eq c hL (Int.natCast_nonneg _) hx, Int.toNat_natCast, ← hlen, natToLE_leToNat b hb]

/-! ### element layouts -/

/-- layout of `to_bytes` on valid Ed25519 elements: 32 bytes little-endian `y + 2^255·(x mod 2)` of the point -/
theorem ed_enc_layout {c : Curve} (h : CurveOK c) (a : EdElem) (va : (ed25519Spec c h).Valid a) :
    have : Fact c.Q.toNat.Prime := h.fact
    ∃ P : Edw.Point (CurveOK.EC h), (ed25519Spec c h).abs a = P ∧
      Ed25519.toBytes c a = natToLE 32 (P.y.val + 2 ^ 255 * (P.x.val % 2)) := by
  have : Fact c.Q.toNat.Prime := h.fact
  obtain ⟨P, r, -, -, hP, -⟩ := CurveOK.Valid.view h va
  exact ⟨P, hP, (h.toBytes_rep r).2⟩

end Spake2Verif.PropAuxB
