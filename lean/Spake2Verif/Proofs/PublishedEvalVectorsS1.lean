import Spake2Model.Model.Published
import Batteries.Lean.Except
/-!
Kernel evaluations (`decide +kernel`: SHA-256 / HKDF / group arithmetic run inside the Lean kernel,
no axioms) of the blinding elements -- here: the symmetric end-to-end vector of `test_compat.py` (messages), reproduced by the model.
Re-exported by `Properties/C03.lean`.
-/
set_option maxRecDepth 100000
namespace Spake2Verif.PublishedEval
open Spake2Model Spake2Model.Gen

theorem vector_asym_msgA :
    (defaultParams (edGroup Spake2Model.ed25519)).toOption.map (fun P =>
      (Inst.new (G := edGroup Spake2Model.ed25519) .A (asciiOf "password") [] [] P ⟨Sha.sha256 (asciiOf "prng-0-A") ++ Sha.sha256 (asciiOf "prng-1-A")⟩).start.2.toOption.map hexlify) =
    some (some (asciiOf "416fc960df73c9cf8ed7198b0c9534e2e96a5984bfc5edc023fd24dacf371f2af9")) := by
  decide +kernel

theorem vector_asym_msgB :
    (defaultParams (edGroup Spake2Model.ed25519)).toOption.map (fun P =>
      (Inst.new (G := edGroup Spake2Model.ed25519) .B (asciiOf "password") [] [] P ⟨Sha.sha256 (asciiOf "prng-0-B") ++ Sha.sha256 (asciiOf "prng-1-B")⟩).start.2.toOption.map hexlify) =
    some (some (asciiOf "42354e97b88406922b1df4bea1d7870f17aed3dba7c720b313edae315b00959309")) := by
  decide +kernel

theorem vector_sym_msg1 :
    (defaultParams (edGroup Spake2Model.ed25519)).toOption.map (fun P =>
      (Inst.new (G := edGroup Spake2Model.ed25519) .S (asciiOf "password") [] [] P ⟨Sha.sha256 (asciiOf "prng-0-1") ++ Sha.sha256 (asciiOf "prng-1-1")⟩).start.2.toOption.map hexlify) =
    some (some (asciiOf "5308f692d38c4034ad6e2e1054c469ca1dbe990bcaec4bbd3ad78c7d968eadd0b3")) := by
  decide +kernel

theorem vector_sym_msg2 :
    (defaultParams (edGroup Spake2Model.ed25519)).toOption.map (fun P =>
      (Inst.new (G := edGroup Spake2Model.ed25519) .S (asciiOf "password") [] [] P ⟨Sha.sha256 (asciiOf "prng-0-2") ++ Sha.sha256 (asciiOf "prng-1-2")⟩).start.2.toOption.map hexlify) =
    some (some (asciiOf "5329e2d5f9b7a53e609204115c6458921b0bb27419ce82a27679fc5961002897df")) := by
  decide +kernel

end Spake2Verif.PublishedEval

section Audit
open Spake2Verif.PublishedEval
#print axioms vector_asym_msgA
#print axioms vector_asym_msgB
#print axioms vector_sym_msg1
#print axioms vector_sym_msg2
end Audit
