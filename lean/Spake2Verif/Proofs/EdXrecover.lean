import Spake2Verif.Proofs.EdBridge
import Mathlib.NumberTheory.LegendreSymbol.Basic

/-!
# `xrecover`: the even square root of `(y² - 1)/(d·y² + 1)`

For a prime `Q ≡ 5 (mod 8)`, `I² = -1` and non-square `d`:

* `xrecover(y)` is always an even integer in `[0, Q)` (whatever `y`);
* if some `x₀` satisfies the curve equation with `y`, so does `xrecover(y)`
  (candidate `u^((Q+3)/8)`, whose square is `u·x₀^((Q-1)/2) = ±u` by Euler; multiplied by `I` when
  the sign is wrong);
* hence for a curve point `P`, `xrecover(P.y)` is `P.x.val` or `Q - P.x.val`, whichever is even.
-/
namespace Spake2Verif.EdBridge
open Spake2Model Spake2Model.Gen.Ed Spake2Verif.Edw

variable {Q : ℕ} [Fact Q.Prime]

/-- `1 + d·y² ≠ 0` because `d` is not a square -/
theorem one_add_d_sq_ne_zero (C : EdCurve (ZMod Q)) (y : ZMod Q) : 1 + C.d * y ^ 2 ≠ 0 := by
  intro h0
  by_cases hy : y = 0
  · rw [hy] at h0; simp at h0
  · apply C.hd (C.i / y)
    rw [div_pow, C.hi]
    field_simp
    linear_combination -h0

/-- on the curve, `x² = (y² - 1)/(1 + d·y²)` -/
theorem x_sq_of_onCurve (C : EdCurve (ZMod Q)) {x y : ZMod Q} (hon : OnCurve C.d x y) :
    x ^ 2 = (y ^ 2 - 1) / (1 + C.d * y ^ 2) := by
  rw [eq_div_iff (one_add_d_sq_ne_zero C y)]
  unfold OnCurve at hon
  linear_combination -hon

theorem onCurve_of_x_sq (C : EdCurve (ZMod Q)) {x y : ZMod Q}
    (hx : x ^ 2 = (y ^ 2 - 1) / (1 + C.d * y ^ 2)) : OnCurve C.d x y := by
  rw [eq_div_iff (one_add_d_sq_ne_zero C y)] at hx
  unfold OnCurve
  linear_combination -hx

theorem emod_eq_zero_iff (a : ℤ) : Int.emod a Q = 0 ↔ (a : ZMod Q) = 0 := by
  rw [ZMod.intCast_zmod_eq_zero_iff_dvd]; exact (Int.dvd_iff_emod_eq_zero).symm

section
variable (C : EdCurve (ZMod Q)) (d I : ℤ) (hd : (d : ZMod Q) = C.d) (hI : (I : ZMod Q) = C.i)
  (hQ8 : Q % 8 = 5)
include hd hI hQ8

/-- the value of `xrecover` before the final parity adjustment -/
theorem xrecover_core (y : ℤ) :
    ∃ x2 : ℤ, (0 ≤ x2 ∧ x2 < Q) ∧
      xrecover (Q : ℤ) d I y = (if Int.emod x2 2 ≠ 0 then (Q : ℤ) - x2 else x2) ∧
      ((∃ x0 : ZMod Q, OnCurve C.d x0 (y : ZMod Q)) →
        (x2 : ZMod Q) ^ 2 = ((y : ZMod Q) ^ 2 - 1) / (1 + C.d * (y : ZMod Q) ^ 2)) := by
  have hQpos := Q_pos (Q := Q)
  let xx : ℤ := ((y * y) - 1) * (inv (Q : ℤ) (((d * y) * y) + 1))
  let x1 : ℤ := Py.pow3 xx (Int.fdiv ((Q : ℤ) + 3) 8) Q
  refine ⟨if Int.emod ((x1 * x1) - xx) Q ≠ 0 then Int.emod (x1 * I) Q else x1, ?_, ?_, ?_⟩
  · split
    · exact emod_reduced _
    · exact ⟨Py.pow3_nonneg _ _ _, Py.pow3_lt _ _ _ hQpos⟩
  · unfold xrecover
    simp only [decide_eq_true_eq]
    rfl
  · rintro ⟨x0, hon⟩
    have hu := x_sq_of_onCurve C hon
    set u : ZMod Q := ((y : ZMod Q) ^ 2 - 1) / (1 + C.d * (y : ZMod Q) ^ 2) with hudef
    -- the cast of `xx`
    have hden : (((d * y) * y + 1 : ℤ) : ZMod Q) ≠ 0 := by
      push_cast; rw [hd]
      have := one_add_d_sq_ne_zero C (y : ZMod Q)
      intro h0; apply this; linear_combination h0
    have hxx : (xx : ZMod Q) = u := by
      show ((((y * y) - 1) * (inv (Q : ℤ) (((d * y) * y) + 1)) : ℤ) : ZMod Q) = u
      rw [Int.cast_mul, inv_cast _ hden, hudef, div_eq_mul_inv]
      push_cast; rw [hd]; ring_nf
    -- the exponent
    obtain ⟨m, hm⟩ : ∃ m : ℕ, Q = 8 * m + 5 := ⟨Q / 8, by omega⟩
    have hfd : Int.fdiv ((Q : ℤ) + 3) 8 = ((m + 1 : ℕ) : ℤ) := by
      rw [Int.fdiv_eq_ediv_of_nonneg _ (by norm_num)]; omega
    have hx1 : (x1 : ZMod Q) = u ^ (m + 1) := by
      show ((Py.pow3 xx (Int.fdiv ((Q : ℤ) + 3) 8) Q : ℤ) : ZMod Q) = _
      rw [hfd, Py.pow3_spec _ _ _ (Int.natCast_nonneg _) hQpos, Int.toNat_natCast,
        ZMod.intCast_mod, Int.cast_pow, hxx]
    have hQ2 : Q / 2 = 4 * m + 2 := by omega
    have hsq : (x1 : ZMod Q) ^ 2 = u * x0 ^ (Q / 2) := by
      rw [hx1, hQ2, ← hu]; ring
    have htest : Int.emod ((x1 * x1) - xx) Q ≠ 0 ↔ (x1 : ZMod Q) ^ 2 ≠ u := by
      rw [Ne, emod_eq_zero_iff]; push_cast; rw [hxx, sub_eq_zero, sq]
    by_cases ht : Int.emod ((x1 * x1) - xx) Q ≠ 0
    · rw [if_pos ht]
      have hne := htest.1 ht
      have hx0 : x0 ≠ 0 := by
        rintro rfl
        apply hne
        rw [hsq, ← hu]; simp
      rcases ZMod.pow_div_two_eq_neg_one_or_one Q hx0 with h1 | h1
      · exfalso; apply hne; rw [hsq, h1, mul_one]
      · rw [cast_emod, Int.cast_mul, mul_pow, hI, C.hi, hsq, h1]; ring
    · rw [if_neg ht]
      by_contra hne
      exact ht (htest.2 hne)

/-- `xrecover(y)` is always an even integer in `[0, Q)`; it satisfies the curve equation with `y`
whenever anything does -/
theorem xrecover_spec (y : ℤ) :
    (0 ≤ xrecover (Q : ℤ) d I y ∧ xrecover (Q : ℤ) d I y < Q ∧ xrecover (Q : ℤ) d I y % 2 = 0) ∧
      ((∃ x0 : ZMod Q, OnCurve C.d x0 (y : ZMod Q)) →
        OnCurve C.d ((xrecover (Q : ℤ) d I y : ℤ) : ZMod Q) (y : ZMod Q)) := by
  obtain ⟨x2, ⟨h0, h1⟩, he, hroot⟩ := xrecover_core C d I hd hI hQ8 y
  rw [he]
  have hodd : (Q : ℤ) % 2 = 1 := by omega
  constructor
  · split
    · next hp =>
      have hp' : x2 % 2 ≠ 0 := hp
      refine ⟨by omega, by omega, by omega⟩
    · next hp =>
      have hp' : ¬ (x2 % 2 ≠ 0) := hp
      refine ⟨h0, h1, by omega⟩
  · intro hex
    apply onCurve_of_x_sq C
    rw [← hroot hex]
    split
    · push_cast; rw [ZMod.natCast_self]; ring
    · rfl

/-- for a curve point `P`, `xrecover(P.y)` is the even one of `P.x.val` and `Q - P.x.val` -/
theorem xrecover_point (P : Point C) :
    xrecover (Q : ℤ) d I (P.y.val : ℤ) =
      if P.x.val % 2 = 0 then (P.x.val : ℤ) else (Q : ℤ) - (P.x.val : ℤ) := by
  have : NeZero Q := ⟨(Fact.out : Q.Prime).ne_zero⟩
  have hy : (((P.y.val : ℕ) : ℤ) : ZMod Q) = P.y := by
    rw [Int.cast_natCast, ZMod.natCast_val, ZMod.cast_id', id]
  obtain ⟨⟨h0, h1, hev⟩, hon⟩ := xrecover_spec C d I hd hI hQ8 (P.y.val : ℤ)
  have hon' := hon ⟨P.x, by rw [hy]; exact P.on⟩
  rw [hy] at hon'
  set x := xrecover (Q : ℤ) d I (P.y.val : ℤ) with hxdef
  have hsq : ((x : ZMod Q)) ^ 2 = P.x ^ 2 := by
    rw [x_sq_of_onCurve C hon', x_sq_of_onCurve C P.on]
  have hxval := eq_val_of_cast_eq h0 h1 (rfl : (x : ZMod Q) = (x : ZMod Q))
  have hfac : ((x : ZMod Q) - P.x) * ((x : ZMod Q) + P.x) = 0 := by linear_combination hsq
  have hodd : Q % 2 = 1 := by omega
  have hPlt := ZMod.val_lt P.x
  rcases mul_eq_zero.1 hfac with hh | hh
  · have e : (x : ZMod Q) = P.x := by linear_combination hh
    rw [e] at hxval
    rw [if_pos (by omega)]
    exact hxval
  · have e : (x : ZMod Q) = -P.x := by linear_combination hh
    rw [e, ZMod.neg_val] at hxval
    by_cases hz : P.x = 0
    · rw [if_pos hz] at hxval
      rw [hz, ZMod.val_zero]
      simpa using hxval
    · rw [if_neg hz] at hxval
      rw [Nat.cast_sub (le_of_lt hPlt)] at hxval
      rw [if_neg (by omega)]
      exact hxval

end

#print axioms xrecover_spec
#print axioms xrecover_point

end Spake2Verif.EdBridge

