import Spake2Verif.Proofs.EdBridge
import Mathlib.NumberTheory.LegendreSymbol.Basic

/-!
# `xrecover`: the even square root of `(y² - 1)/(d·y² + 1)`

For a prime `Q ≡ 5 (mod 8)`, `I² = -1` and non-square `d`:

* `xrecover(y)` is always an even integer in `[0, Q)` (whatever `y`);
* if some `x₀` satisfies the curve equation with `y`, so does `xrecover(y)`
  (candidate `u^((Q+3)/8)`, whose square is `u·x₀^((Q-1)/2) = ±u` by Euler; multiplied by `I` when
  the sign is wrong);
* hence for a curve point `P`, `xrecover(P.y)` is `P.x.val` or `Q - P.x.val`, whichever is even.
-/
set_option linter.unusedSimpArgs false
namespace Spake2Verif.EdBridge
open Spake2Model Spake2Model.Gen.Ed Spake2Verif.Edw

variable {Q : ℕ} [Fact Q.Prime]

/-- `1 + d·y² ≠ 0` because `d` is not a square -/
theorem one_add_d_sq_ne_zero (C : EdCurve (ZMod Q)) (y : ZMod Q) : 1 + C.d * y ^ 2 ≠ 0 := by
  intro h0
  by_cases hy : y = 0
  · rw [hy] at h0; simp at h0
  · apply C.hd (C.i / y)
    rw [div_pow, C.hi]
    field_simp
    linear_combination -h0

/-- on the curve, `x² = (y² - 1)/(1 + d·y²)` -/
theorem x_sq_of_onCurve (C : EdCurve (ZMod Q)) {x y : ZMod Q} (hon : OnCurve C.d x y) :
    x ^ 2 = (y ^ 2 - 1) / (1 + C.d * y ^ 2) := by
  rw [eq_div_iff (one_add_d_sq_ne_zero C y)]
  unfold OnCurve at hon
  linear_combination -hon

theorem onCurve_of_x_sq (C : EdCurve (ZMod Q)) {x y : ZMod Q}
    (hx : x ^ 2 = (y ^ 2 - 1) / (1 + C.d * y ^ 2)) : OnCurve C.d x y := by
  rw [eq_div_iff (one_add_d_sq_ne_zero C y)] at hx
  unfold OnCurve
  linear_combination -hx

theorem emod_eq_zero_iff (a : ℤ) : Int.emod a Q = 0 ↔ (a : ZMod Q) = 0 := by
  rw [ZMod.intCast_zmod_eq_zero_iff_dvd]; exact (Int.dvd_iff_emod_eq_zero).symm

/-- Fermat inversion, unconditionally (`inv(0) = 0 = 0⁻¹` as `Q > 2`) -/
theorem inv_cast_total (hQ2 : 2 < Q) (z : ℤ) :
    ((inv (Q : ℤ) z : ℤ) : ZMod Q) = (z : ZMod Q)⁻¹ := by
  by_cases hz : (z : ZMod Q) = 0
  · rw [hz, inv_zero]
    unfold inv
    have h2 : (2 : ℤ) < (Q : ℤ) := by exact_mod_cast hQ2
    rw [Py.pow3_spec z ((Q : ℤ) - 2) Q (by omega) Q_pos, ZMod.intCast_mod, Int.cast_pow, hz]
    exact zero_pow (by omega)
  · exact inv_cast z hz

/-- two reduced integers are equal iff their residues are -/
theorem reduced_eq_iff {a b : ℤ} (ha : 0 ≤ a ∧ a < Q) (hb : 0 ≤ b ∧ b < Q) :
    a = b ↔ (a : ZMod Q) = (b : ZMod Q) := by
  constructor
  · rintro rfl; rfl
  · intro h
    exact (eq_val_of_cast_eq ha.1 ha.2 h).trans (eq_val_of_cast_eq hb.1 hb.2 rfl).symm

/-- the square-root test written `pow(x, 2, Q) != xx` with `xx` already reduced -/
theorem pow3_two_ne_emod_iff (x b : ℤ) :
    Py.pow3 x 2 (Q : ℤ) ≠ Int.emod b Q ↔ (x : ZMod Q) ^ 2 ≠ (b : ZMod Q) := by
  rw [Ne, Ne, reduced_eq_iff ⟨Py.pow3_nonneg _ _ _, Py.pow3_lt _ _ _ Q_pos⟩ (emod_reduced b),
    Py.pow3_spec _ _ _ (by norm_num) Q_pos, cast_emod]
  have : ((x ^ (2 : ℤ).toNat % (Q : ℤ) : ℤ) : ZMod Q) = (x : ZMod Q) ^ 2 := by
    rw [ZMod.intCast_mod]; push_cast; rfl
  rw [this]

/-- the square-root test written `(x*x - xx) % Q != 0` (or with any other integer polynomial) -/
theorem emod_ne_zero_iff (a : ℤ) : Int.emod a Q ≠ 0 ↔ (a : ZMod Q) ≠ 0 := by
  rw [Ne, Ne, emod_eq_zero_iff]

section
variable (C : EdCurve (ZMod Q)) (d I : ℤ) (hd : (d : ZMod Q) = C.d) (hI : (I : ZMod Q) = C.i)
  (hQ8 : Q % 8 = 5)
include hd hI hQ8

/-- The structure of `xrecover`, independent of how its pieces are written:
`xx ≡ (y²-1)/(dy²+1)`, candidate `x1 = pow(xx, (Q+3)//8, Q)`, replaced by `m2 % Q` with
`m2 ≡ x1·I` when the test `T1` (equivalent to `x1² ≢ xx`) holds, finally replaced by `Q - x2` when
the test `T2` (equivalent to `x2` odd) holds. -/
theorem xrecover_core_of (y r xx x1 x2 m2 e : ℤ) {T1 T2 : Prop} {i1 : Decidable T1} {i2 : Decidable T2}
    (hr : r = @ite _ T2 i2 ((Q : ℤ) - x2) x2)
    (hx2 : x2 = @ite _ T1 i1 (Int.emod m2 Q) x1)
    (hx1 : x1 = Py.pow3 xx e Q)
    (he : e = ((Q : ℤ) + 3) / 8)
    (hT2 : T2 ↔ x2 % 2 ≠ 0)
    (hT1 : T1 ↔ (x1 : ZMod Q) ^ 2 ≠ (xx : ZMod Q))
    (hm2 : (m2 : ZMod Q) = (x1 : ZMod Q) * (I : ZMod Q))
    (hxx : (xx : ZMod Q) = ((y : ZMod Q) ^ 2 - 1) / (1 + C.d * (y : ZMod Q) ^ 2)) :
    ∃ x2' : ℤ, (0 ≤ x2' ∧ x2' < Q) ∧
      r = (if Int.emod x2' 2 ≠ 0 then (Q : ℤ) - x2' else x2') ∧
      ((∃ x0 : ZMod Q, OnCurve C.d x0 (y : ZMod Q)) →
        (x2' : ZMod Q) ^ 2 = ((y : ZMod Q) ^ 2 - 1) / (1 + C.d * (y : ZMod Q) ^ 2)) := by
  have hQpos := Q_pos (Q := Q)
  refine ⟨x2, ?_, ?_, ?_⟩
  · rw [hx2]
    split
    · exact emod_reduced _
    · rw [hx1]; exact ⟨Py.pow3_nonneg _ _ _, Py.pow3_lt _ _ _ hQpos⟩
  · rw [hr]
    exact if_congr hT2 rfl rfl
  · rintro ⟨x0, hon⟩
    have hu := x_sq_of_onCurve C hon
    set u : ZMod Q := ((y : ZMod Q) ^ 2 - 1) / (1 + C.d * (y : ZMod Q) ^ 2) with hudef
    -- the exponent
    obtain ⟨m, hm⟩ : ∃ m : ℕ, Q = 8 * m + 5 := ⟨Q / 8, by omega⟩
    have hfd : e = ((m + 1 : ℕ) : ℤ) := by rw [he]; omega
    have hx1' : (x1 : ZMod Q) = u ^ (m + 1) := by
      rw [hx1, hfd, Py.pow3_spec _ _ _ (Int.natCast_nonneg _) hQpos, Int.toNat_natCast,
        ZMod.intCast_mod, Int.cast_pow, hxx]
    have hQ2 : Q / 2 = 4 * m + 2 := by omega
    have hsq : (x1 : ZMod Q) ^ 2 = u * x0 ^ (Q / 2) := by
      rw [hx1', hQ2, ← hu]; ring
    rw [hxx] at hT1
    rw [hx2]
    by_cases ht : T1
    · rw [if_pos ht]
      have hne := hT1.1 ht
      have hx0 : x0 ≠ 0 := by
        rintro rfl
        apply hne
        rw [hsq, ← hu]; simp
      rcases ZMod.pow_div_two_eq_neg_one_or_one Q hx0 with h1 | h1
      · exfalso; apply hne; rw [hsq, h1, mul_one]
      · rw [cast_emod, hm2, mul_pow, hI, C.hi, hsq, h1]; ring
    · rw [if_neg ht]
      by_contra hne
      exact ht (hT1.2 hne)

/-- the value of `xrecover` before the final parity adjustment.  The generated definition is only
*matched* against the structure of `xrecover_core_of` (by unification); the tests and the
arithmetic may be written in any of the equivalent ways handled by the normalising lemmas. -/
theorem xrecover_core (y : ℤ) :
    ∃ x2 : ℤ, (0 ≤ x2 ∧ x2 < Q) ∧
      xrecover (Q : ℤ) d I y = (if Int.emod x2 2 ≠ 0 then (Q : ℤ) - x2 else x2) ∧
      ((∃ x0 : ZMod Q, OnCurve C.d x0 (y : ZMod Q)) →
        (x2 : ZMod Q) ^ 2 = ((y : ZMod Q) ^ 2 - 1) / (1 + C.d * (y : ZMod Q) ^ 2)) := by
  have hQ2 : 2 < Q := by omega
  refine xrecover_core_of C d I hd hI hQ8 y (xrecover (Q : ℤ) d I y) ?xx ?x1 ?x2 ?m2 ?e
    (T1 := ?T1) (T2 := ?T2) (i1 := ?i1) (i2 := ?i2) (hr := ?hr) (hx2 := ?hx2) (hx1 := ?hx1) (he := ?he) (hT2 := ?hT2) (hT1 := ?hT1)
    (hm2 := ?hm2) (hxx := ?hxx)
  case hr => unfold xrecover; rfl
  case hx2 => rfl
  case hx1 => rfl
  case he =>
    first
    | rfl
    | exact Int.fdiv_eq_ediv_of_nonneg _ (by norm_num)
  case hT2 =>
    simp only [decide_eq_true_eq, Py.band_one] <;> exact Iff.rfl
  case hT1 =>
    simp only [decide_eq_true_eq, pow3_two_ne_emod_iff, emod_ne_zero_iff] <;>
    first
    | exact Iff.rfl
    | (push_cast [cast_emod, inv_cast_total hQ2]
       constructor <;> intro h <;> contrapose! h <;> linear_combination h)
  case hm2 => push_cast; ring
  case hxx =>
    push_cast [cast_emod, inv_cast_total hQ2]
    simp only [hd]
    ring

/-- `xrecover(y)` is always an even integer in `[0, Q)`; it satisfies the curve equation with `y`
whenever anything does -/
theorem xrecover_spec (y : ℤ) :
    (0 ≤ xrecover (Q : ℤ) d I y ∧ xrecover (Q : ℤ) d I y < Q ∧ xrecover (Q : ℤ) d I y % 2 = 0) ∧
      ((∃ x0 : ZMod Q, OnCurve C.d x0 (y : ZMod Q)) →
        OnCurve C.d ((xrecover (Q : ℤ) d I y : ℤ) : ZMod Q) (y : ZMod Q)) := by
  obtain ⟨x2, ⟨h0, h1⟩, he, hroot⟩ := xrecover_core C d I hd hI hQ8 y
  rw [he]
  have hodd : (Q : ℤ) % 2 = 1 := by omega
  constructor
  · split
    · next hp =>
      have hp' : x2 % 2 ≠ 0 := hp
      refine ⟨by omega, by omega, by omega⟩
    · next hp =>
      have hp' : ¬ (x2 % 2 ≠ 0) := hp
      refine ⟨h0, h1, by omega⟩
  · intro hex
    apply onCurve_of_x_sq C
    rw [← hroot hex]
    split
    · push_cast; rw [ZMod.natCast_self]; ring
    · rfl

/-- for a curve point `P`, `xrecover(P.y)` is the even one of `P.x.val` and `Q - P.x.val` -/
theorem xrecover_point (P : Point C) :
    xrecover (Q : ℤ) d I (P.y.val : ℤ) =
      if P.x.val % 2 = 0 then (P.x.val : ℤ) else (Q : ℤ) - (P.x.val : ℤ) := by
  have : NeZero Q := ⟨(Fact.out : Q.Prime).ne_zero⟩
  have hy : (((P.y.val : ℕ) : ℤ) : ZMod Q) = P.y := by
    rw [Int.cast_natCast, ZMod.natCast_val, ZMod.cast_id', id]
  obtain ⟨⟨h0, h1, hev⟩, hon⟩ := xrecover_spec C d I hd hI hQ8 (P.y.val : ℤ)
  have hon' := hon ⟨P.x, by rw [hy]; exact P.on⟩
  rw [hy] at hon'
  set x := xrecover (Q : ℤ) d I (P.y.val : ℤ) with hxdef
  have hsq : ((x : ZMod Q)) ^ 2 = P.x ^ 2 := by
    rw [x_sq_of_onCurve C hon', x_sq_of_onCurve C P.on]
  have hxval := eq_val_of_cast_eq h0 h1 (rfl : (x : ZMod Q) = (x : ZMod Q))
  have hfac : ((x : ZMod Q) - P.x) * ((x : ZMod Q) + P.x) = 0 := by linear_combination hsq
  have hodd : Q % 2 = 1 := by omega
  have hPlt := ZMod.val_lt P.x
  rcases mul_eq_zero.1 hfac with hh | hh
  · have e : (x : ZMod Q) = P.x := by linear_combination hh
    rw [e] at hxval
    rw [if_pos (by omega)]
    exact hxval
  · have e : (x : ZMod Q) = -P.x := by linear_combination hh
    rw [e, ZMod.neg_val] at hxval
    by_cases hz : P.x = 0
    · rw [if_pos hz] at hxval
      rw [hz, ZMod.val_zero]
      simpa using hxval
    · rw [if_neg hz] at hxval
      rw [Nat.cast_sub (le_of_lt hPlt)] at hxval
      rw [if_neg (by omega)]
      exact hxval

end

#print axioms xrecover_spec
#print axioms xrecover_point

end Spake2Verif.EdBridge

