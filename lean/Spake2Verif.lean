-- This module serves as the root of the `Spake2Verif` library.
-- Import modules here that should be built as part of the library.
import Spake2Verif.Basic
