-- Root of the proof library: imports every proof module.
import Spake2Verif.Basic.PyLemmas
import Spake2Verif.Basic.PyLemmas2
import Spake2Verif.Spec.Primes
import Spake2Verif.Spec.EdConsts
import Spake2Verif.Spec.Edwards
import Spake2Verif.Proofs.BytesLemmas
import Spake2Verif.Proofs.UtilProofs
import Spake2Verif.Proofs.RandrangeProofs
import Spake2Verif.Proofs.JsonProofs
import Spake2Verif.Proofs.TranscriptProofs
import Spake2Verif.Proofs.SerializeProofs
import Spake2Verif.Proofs.EdBridge
import Spake2Verif.Proofs.EdLadder
