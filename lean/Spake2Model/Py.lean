/-!
Python integer semantics used by the generated code (`Gen/*`) and the hand-written model.
Mathlib-free, executable, kernel-reducible (structural recursion only).
-/
namespace Spake2Model
namespace Py

/-- square-and-multiply, structural on fuel so that the kernel can evaluate it -/
def powModAux : Nat → Nat → Nat → Nat → Nat → Nat
  | 0, _, _, _, acc => acc
  | fuel+1, b, e, n, acc =>
    if e = 0 then acc
    else powModAux fuel (b*b % n) (e / 2) n (if e % 2 = 1 then acc*b % n else acc)

/-- `b^e % n` on naturals -/
def powMod (b e n : Nat) : Nat := powModAux (e.log2 + 1) (b % n) e n (1 % n)

/-- Python's three-argument `pow(b, e, n)` for `e ≥ 0`, `n > 0` (result in `[0,n)`).
Outside that domain Python raises or computes inverses; the model never calls it there and
the function returns 0. -/
def pow3 (b e n : Int) : Int :=
  if 0 ≤ e ∧ 0 < n then Int.ofNat (powMod (b.emod n).toNat e.toNat n.toNat) else 0

/-- Python `a >> k` (floor) for `k ≥ 0` -/
def shr (a k : Int) : Int := Int.fdiv a (2 ^ k.toNat)

/-- Python `a << k` for `k ≥ 0` -/
def shl (a k : Int) : Int := a * 2 ^ k.toNat

/-- Python `int.bit_length()` -/
def bitLength (a : Int) : Int :=
  if a = 0 then 0 else Int.ofNat (a.natAbs.log2 + 1)

/-- Python `a & b` (two's complement, arbitrary precision) -/
def band (a b : Int) : Int :=
  if 0 ≤ b then
    -- only the low bitLength(b) bits of a matter
    Int.ofNat ((a.emod (2 ^ (bitLength b).toNat)).toNat &&& b.toNat)
  else if 0 ≤ a then
    Int.ofNat ((b.emod (2 ^ (bitLength a).toNat)).toNat &&& a.toNat)
  else
    -- both negative: a & b = -(((-a-1) | (-b-1)) + 1)
    -(Int.ofNat ((-a-1).toNat ||| (-b-1).toNat) + 1)

/-- Python `a | b` -/
def bor (a b : Int) : Int :=
  if 0 ≤ a ∧ 0 ≤ b then Int.ofNat (a.toNat ||| b.toNat)
  else -(band (-a-1) (-b-1)) - 1

/-- `int(math.ceil(a / b))` for the small positive operands it is used on -/
def ceilDiv (a b : Int) : Int := -(Int.fdiv (-a) b)

end Py
end Spake2Model
