/-!
Byte strings as lists of naturals (each < 256 when well-formed), hex, fixed-width
big/little-endian codecs, Python's lexicographic order on `bytes`.
-/
namespace Spake2Model

abbrev Bytes := List Nat

/-- every entry is a byte -/
def IsBytes (b : Bytes) : Prop := ∀ x ∈ b, x < 256

instance (b : Bytes) : Decidable (IsBytes b) := by unfold IsBytes; infer_instance

/-- little-endian, exactly `k` bytes (value truncated mod 256^k) -/
def natToLE : Nat → Nat → Bytes
  | 0, _ => []
  | k+1, n => (n % 256) :: natToLE k (n / 256)

def leToNat : Bytes → Nat
  | [] => 0
  | b :: bs => b + 256 * leToNat bs

/-- big-endian, exactly `k` bytes -/
def natToBE (k n : Nat) : Bytes := (natToLE k n).reverse

def beToNat (b : Bytes) : Nat := leToNat b.reverse

/-- ASCII code of a lower-case hex digit -/
def hexDigit (n : Nat) : Nat := if n < 10 then 48 + n else 87 + n

/-- value of an ASCII hex digit (upper or lower case), as `binascii.unhexlify` accepts -/
def hexVal? (c : Nat) : Option Nat :=
  if 48 ≤ c ∧ c ≤ 57 then some (c - 48)
  else if 97 ≤ c ∧ c ≤ 102 then some (c - 87)
  else if 65 ≤ c ∧ c ≤ 70 then some (c - 55)
  else none

/-- `binascii.hexlify` : bytes → ASCII codes of lower-case hex -/
def hexlify : Bytes → Bytes
  | [] => []
  | b :: bs => hexDigit (b / 16) :: hexDigit (b % 16) :: hexlify bs

/-- `binascii.unhexlify` : `none` on odd length or a non-hex digit -/
def unhexlify : Bytes → Option Bytes
  | [] => some []
  | [_] => none
  | a :: b :: r =>
    match hexVal? a, hexVal? b, unhexlify r with
    | some x, some y, some t => some ((x * 16 + y) :: t)
    | _, _, _ => none

/-- Python's `a < b` on bytes -/
def bytesLt : Bytes → Bytes → Bool
  | [], [] => false
  | [], _ :: _ => true
  | _ :: _, [] => false
  | a :: as, b :: bs => if a < b then true else if b < a then false else bytesLt as bs

/-- `sorted([m1, m2])` (stable) -/
def sorted2 (m1 m2 : Bytes) : Bytes × Bytes := if bytesLt m2 m1 then (m2, m1) else (m1, m2)

def asciiOf (s : String) : Bytes := s.toList.map Char.toNat

end Spake2Model
