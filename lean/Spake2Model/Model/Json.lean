import Spake2Model.Model.Bytes
/-!
The fragment of JSON that `serialize()` emits and `from_serialized()` must accept:
one flat object whose keys and values are strings without escapes.
`dumps` reproduces `json.dumps` of a `dict[str,str]` (separators `", "` and `": "`),
`parse` accepts any whitespace Python's `json.loads` accepts between tokens, any key order,
duplicate keys (the last one wins in `lookup`, as in Python).  Anything else is `none`
(Python would raise or produce a non-string value; the harness does not generate such inputs).
-/
namespace Spake2Model
namespace Json

abbrev Dict := List (Bytes × Bytes)

def quote (s : Bytes) : Bytes := [34] ++ s ++ [34]

def dumpsPairs : Dict → Bytes
  | [] => []
  | [(k, v)] => quote k ++ [58, 32] ++ quote v
  | (k, v) :: rest => quote k ++ [58, 32] ++ quote v ++ [44, 32] ++ dumpsPairs rest

/-- `json.dumps(d).encode("ascii")` -/
def dumps (d : Dict) : Bytes := [123] ++ dumpsPairs d ++ [125]

def isWs (c : Nat) : Bool := c = 32 || c = 9 || c = 10 || c = 13

def skipWs : Bytes → Bytes
  | [] => []
  | c :: r => if isWs c then skipWs r else c :: r

/-- after the opening quote: characters up to the closing quote; rejects `\\`, control and non-ASCII -/
def strBody : Bytes → Option (Bytes × Bytes)
  | [] => none
  | c :: r =>
    if c = 34 then some ([], r)
    else if c = 92 ∨ c < 32 ∨ c ≥ 128 then none
    else match strBody r with
      | some (s, rest) => some (c :: s, rest)
      | none => none

def str (b : Bytes) : Option (Bytes × Bytes) :=
  match skipWs b with
  | 34 :: r => strBody r
  | _ => none

/-- members after the first: `, "k": "v"` … `}` -/
def members : Nat → Bytes → Option (Dict × Bytes)
  | 0, _ => none
  | fuel+1, b =>
    match str b with
    | none => none
    | some (k, r1) =>
      match skipWs r1 with
      | 58 :: r2 =>
        match str r2 with
        | none => none
        | some (v, r3) =>
          match skipWs r3 with
          | 44 :: r4 => match members fuel r4 with
            | some (d, r) => some ((k, v) :: d, r)
            | none => none
          | 125 :: r4 => some ([(k, v)], r4)
          | _ => none
      | _ => none

/-- `json.loads` restricted to flat string→string objects -/
def parse (b : Bytes) : Option Dict :=
  match skipWs b with
  | 123 :: r =>
    match skipWs r with
    | 125 :: r' => if (skipWs r').isEmpty then some [] else none
    | _ => match members (b.length + 1) r with
      | some (d, r') => if (skipWs r').isEmpty then some d else none
      | none => none
  | _ => none

/-- `d[k]` (last duplicate wins) -/
def lookup (k : Bytes) : Dict → Option Bytes
  | [] => none
  | (k', v) :: rest =>
    match lookup k rest with
    | some v' => some v'
    | none => if k' = k then some v else none

end Json
end Spake2Model
