import Spake2Model.Model.Spake2
import Spake2Model.Model.System
import Spake2Model.Model.Published
import Std.Data.HashMap
/-!
Line protocol: one operation per input line, one canonical result per output line.
The Python harness (`harness/impl.py`) executes the same lines against the real library.
-/
namespace Spake2Model
namespace Driver
open Gen

inductive DGroup
  | int (P : IntGroupParams)
  | ed (c : Curve)

def DGroup.toGroup : DGroup → Group
  | .int P => intGroup P
  | .ed c => edGroup c

inductive DElem
  | int (P : IntGroupParams) (v : Int)
  | ed (c : Curve) (e : EdElem)

structure AnyParams where
  g : DGroup
  p : Params g.toGroup

/-- one multi-session system (`Model/System.lean`) per group object -/
structure AnySys where
  g : DGroup
  sys : Sys g.toGroup

structure AnySession where
  g : DGroup
  inst : Inst g.toGroup

structure St where
  groups : List (Nat × DGroup) := []
  /-- one system per parameter set, keyed by parameter id; all session operations go through `Sys.step` -/
  systems : List (Nat × AnySys) := []
  /-- session id ↦ parameter id of the system it lives in -/
  sessOf : List (Nat × Nat) := []
  /-- element registers (a hash map: scenarios create several 10^5 of them) -/
  elems : Std.HashMap Nat DElem := {}

def find {α : Type} (k : Nat) : List (Nat × α) → Option α
  | [] => none
  | (k', v) :: r => if k = k' then some v else find k r

def put {α : Type} (k : Nat) (v : α) (l : List (Nat × α)) : List (Nat × α) :=
  (k, v) :: l.filter (fun kv => kv.1 ≠ k)

def findE {α : Type} (k : Nat) (m : Std.HashMap Nat α) : Option α := m[k]?

def hexStr (b : Bytes) : String := if b.isEmpty then "-" else String.ofList ((hexlify b).map Char.ofNat)

def parseHex (s : String) : Option Bytes := if s = "-" then some [] else unhexlify (s.toList.map Char.toNat)

def excName : PyExc → String
  | .ValueError => "ValueError" | .AssertionError => "AssertionError" | .TypeError => "TypeError"
  | .AttributeError => "AttributeError" | .KeyError => "KeyError" | .NotOnCurve => "NotOnCurve"
  | .BinasciiError => "Error" | .UnicodeError => "UnicodeDecodeError" | .JSONDecodeError => "JSONDecodeError"
  | .EntropyExhausted => "EntropyExhausted" | .ZeroDivisionError => "ZeroDivisionError"
  | .IndexError => "IndexError" | .Fuel => "FUEL"

def errStr : Err → String
  | .OnlyCallStartOnce => "raise:OnlyCallStartOnce"
  | .OnlyCallFinishOnce => "raise:OnlyCallFinishOnce"
  | .OffSides => "raise:OffSides"
  | .SerializedTooEarly => "raise:SerializedTooEarly"
  | .WrongSideSerialized => "raise:WrongSideSerialized"
  | .WrongGroupError => "raise:WrongGroupError"
  | .ReflectionThwarted => "raise:ReflectionThwarted"
  | .other e => "raise:other/" ++ excName e

def showR {α : Type} (f : α → String) : R α → String
  | .ok a => "ok " ++ f a
  | .error e => errStr e

def kindStr : Kind → String
  | .elem => "elem" | .unknown => "unknown" | .zero => "zero"

def p4Str (p : P4) : String := s!"{p.1} {p.2.1} {p.2.2.1} {p.2.2.2}"

def parseSide : String → Option Side
  | "A" => some .A | "B" => some .B | "S" => some .S | _ => none

def DElem.show : DElem → String
  | .int P v => hexStr (IG.enc P v) ++ " int"
  | .ed c e => hexStr (Ed25519.toBytes c e) ++ " " ++ kindStr e.kind

def DElem.enc : DElem → Bytes
  | .int P v => IG.enc P v
  | .ed c e => Ed25519.toBytes c e

/-- element-API binary operation with Python's same-group assertions -/
def elemBin (op : String) (a b : DElem) : R DElem :=
  match a, b with
  | .int P x, .int P' y =>
    if P ≠ P' then raise .AssertionError else
    match op with
    | "add" => (IG.add P x y).map (DElem.int P)
    | _ => raise .AttributeError
  | .ed c x, .ed _ y =>
    match op with
    | "add" => (Ed25519.add c x y).map (DElem.ed c)
    | "sub" => (Ed25519.subtract c x y).map (DElem.ed c)
    | _ => raise .AttributeError
  | _, _ => raise .TypeError

def mkElem (g : DGroup) (e : g.toGroup.Elem) : DElem :=
  match g, e with
  | .int P, v => .int P v
  | .ed c, v => .ed c v

def outStr : SOut → String
  | .ok b => "ok " ++ hexStr b
  | .done => "ok"
  | .err e => errStr e
  | .nosuch => "bad-op"

/-- apply one `SOp` to session `sid` in the system of parameter set `gid` -/
def sysStep (st : St) (gid sid : Nat) (op : SOp) : St × String :=
  match find gid st.systems with
  | none => (st, "bad-op")
  | some a =>
    let r := a.sys.step sid op
    ({ st with systems := put gid ⟨a.g, r.1⟩ st.systems }, outStr r.2)

def sessionOf (st : St) (sid : Nat) : Option AnySession :=
  match find sid st.sessOf with
  | none => none
  | some gid => match find gid st.systems with
    | none => none
    | some a => match a.sys.session sid with
      | none => none
      | some i => some ⟨a.g, i⟩

/-- a fresh system holding exactly the parameter set `pid` -/
def mkSys (g : DGroup) (pid : Nat) (p : Params g.toGroup) : AnySys := ⟨g, Sys.init [(pid, p)]⟩

/-- parameter id reserved for `newdef` (sessions created without `params=`) -/
def defaultPid : Nat := 1000000

def pubGroup : String → Option DGroup
  | "ed" => some (.ed Published.curve)
  | "1024" => some (.int Published.i1024)
  | "2048" => some (.int Published.i2048)
  | "3072" => some (.int Published.i3072)
  | _ => none

def step (st : St) (line : String) : St × String :=
  let ws := (line.trimAscii.toString.splitOn " ").filter (· ≠ "")
  let bad := (st, "bad-op")
  let int? (s : String) : Option Int := s.toInt?
  let nat? (s : String) : Option Nat := s.toNat?
  match ws with
  | ["group", gid, "int", p, q, g] =>
    match nat? gid, int? p, int? q, int? g with
    | some gid, some p, some q, some g =>
      let P : IntGroupParams := ⟨p, q, g⟩
      match IG.ctor P with
      | .ok _ => ({ st with groups := put gid (.int P) st.groups }, "ok")
      | .error e => (st, errStr e)
    | _, _, _, _ => bad
  | ["group", gid, "ed"] =>
    match nat? gid with
    | some gid => ({ st with groups := put gid (.ed ed25519) st.groups }, "ok")
    | _ => bad
  | ["group", gid, "pub", which] =>
    match nat? gid, pubGroup which with
    | some gid, some g => ({ st with groups := put gid g st.groups }, "ok")
    | _, _ => bad
  | ["reparams", pid, gid, m, n, s] =>
    -- drop the parameter set and create it anew with other seeds (object identity has no meaning in the model)
    match nat? pid, nat? gid, parseHex m, parseHex n, parseHex s with
    | some pid, some gid, some m, some n, some s =>
      let st' := { st with systems := st.systems.filter (fun kv => kv.1 ≠ pid), sessOf := st.sessOf.filter (fun kv => kv.2 ≠ pid) }
      match find gid st'.groups with
      | some g =>
        match mkParams g.toGroup m n s with
        | .ok p => ({ st' with systems := put pid (mkSys g pid p) st'.systems }, "ok")
        | .error e => (st', errStr e)
      | none => bad
    | _, _, _, _, _ => bad
  | ["unparams", pid] =>
    match nat? pid with
    | some pid => ({ st with systems := st.systems.filter (fun kv => kv.1 ≠ pid),
                             sessOf := st.sessOf.filter (fun kv => kv.2 ≠ pid) }, "ok")
    | none => bad
  | ["params", pid, "shipped", which] =>
    match nat? pid, pubGroup which with
    | some pid, some g =>
      match mkParams g.toGroup Published.seedM Published.seedN Published.seedS with
      | .ok p => ({ st with systems := put pid (mkSys g pid p) st.systems }, "ok")
      | .error e => (st, errStr e)
    | _, _ => bad
  | ["newdef", sid, side, pw, idA, idB, ent] =>
    match nat? sid, parseSide side, parseHex pw, parseHex idA, parseHex idB, parseHex ent with
    | some sid, some side, some pw, some idA, some idB, some ent =>
      let g := DGroup.ed Published.curve
      let st1 : Option St := match find defaultPid st.systems with
        | some _ => some st
        | none => match mkParams g.toGroup Published.seedM Published.seedN Published.seedS with
          | .ok p => some { st with systems := put defaultPid (mkSys g defaultPid p) st.systems }
          | .error _ => none
      match st1 with
      | none => (st, "raise:other/ParamsFailed")
      | some st1 =>
        let r := sysStep st1 defaultPid sid (.new side defaultPid pw idA idB ⟨ent⟩)
        ({ r.1 with sessOf := put sid defaultPid r.1.sessOf }, r.2)
    | _, _, _, _, _, _ => bad
  | ["group", gid, "edtoy", q, l, d, i, bx, byy] =>
    match nat? gid, int? q, int? l, int? d, int? i, int? bx, int? byy with
    | some gid, some q, some l, some d, some i, some bx, some byy =>
      ({ st with groups := put gid (.ed ⟨q, l, d, i, (bx, byy)⟩) st.groups }, "ok")
    | _, _, _, _, _, _, _ => bad
  | ["paramsopt", pid, gid, m, n, s] =>
    -- `_Params(group, ...)` with some seed arguments omitted (`~`): the constructor's defaults are the published seeds
    let opt (x : String) (d : Bytes) : Option Bytes := if x = "~" then some d else parseHex x
    match nat? pid, nat? gid, opt m Published.seedM, opt n Published.seedN, opt s Published.seedS with
    | some pid, some gid, some m, some n, some s =>
      match find gid st.groups with
      | some g =>
        match mkParams g.toGroup m n s with
        | .ok p => ({ st with systems := put pid (mkSys g pid p) st.systems }, "ok")
        | .error e => (st, errStr e)
      | none => bad
    | _, _, _, _, _ => bad
  | ["params", pid, gid, m, n, s] =>
    match nat? pid, nat? gid, parseHex m, parseHex n, parseHex s with
    | some pid, some gid, some m, some n, some s =>
      match find gid st.groups with
      | some g =>
        match mkParams g.toGroup m n s with
        | .ok p => ({ st with systems := put pid (mkSys g pid p) st.systems }, "ok")
        | .error e => (st, errStr e)
      | none => bad
    | _, _, _, _, _ => bad
  | ["new", sid, side, pid, pw, idA, idB, ent] | ["newfalsy", sid, side, pid, pw, idA, idB, ent] =>
    match nat? sid, parseSide side, nat? pid, parseHex pw, parseHex idA, parseHex idB, parseHex ent with
    | some sid, some side, some pid, some pw, some idA, some idB, some ent =>
      let r := sysStep st pid sid (.new side pid pw idA idB ⟨ent⟩)
      ({ r.1 with sessOf := put sid pid r.1.sessOf }, r.2)
    | _, _, _, _, _, _, _ => bad
  | ["start", sid] =>
    match nat? sid, nat? sid >>= (find · st.sessOf) with
    | some sid, some pid => sysStep st pid sid .start
    | _, _ => bad
  | ["finish", sid, msg] | ["finishba", sid, msg] =>
    match nat? sid, nat? sid >>= (find · st.sessOf), parseHex msg with
    | some sid, some pid, some msg => sysStep st pid sid (.finish msg)
    | _, _, _ => bad
  | ["ser", sid] =>
    match nat? sid, nat? sid >>= (find · st.sessOf) with
    | some sid, some pid => sysStep st pid sid .serialize
    | _, _ => bad
  | ["restore", sid, side, pid, data] =>
    match nat? sid, parseSide side, nat? pid, parseHex data with
    | some sid, some side, some pid, some data =>
      let r := sysStep st pid sid (.restore side pid data)
      if r.2 = "ok" then ({ r.1 with sessOf := put sid pid r.1.sessOf }, r.2) else r
    | _, _, _, _ => bad
  | ["state", sid] =>
    match nat? sid >>= sessionOf st with
    | some s =>
      let i := s.inst
      let sc := match i.xyScalar with | some x => toString x | none => "none"
      let ob := match i.outbound with | some b => hexStr b | none => "none"
      (st, s!"st {sc} {ob} {i.pwScalar}")
    | none => bad
  | ["p.mns", pid] =>
    match nat? pid >>= (find · st.systems) with
    | some a =>
      match alookup (nat? pid).get! a.sys.params with
      | some p => let G := a.g.toGroup; (st, s!"ok {hexStr (G.enc p.M)} {hexStr (G.enc p.N)} {hexStr (G.enc p.S)}")
      | none => bad
    | none => bad
  | ["entleft", sid] =>
    match nat? sid >>= sessionOf st with
    | some s => (st, s!"ok {s.inst.entropy.stream.length}")
    | none => bad
  | ["hashparams", sid] =>
    match nat? sid >>= sessionOf st with
    | some s => (st, showR hexStr (s.inst.hashParams.map (fun h => (unhexlify h).getD [])))
    | none => bad
  | ["sizebits", n] => match int? n with | some n => (st, s!"ok {Util.size_bits n}") | none => bad
  | ["sizebytes", n] => match int? n with | some n => (st, s!"ok {Util.size_bytes n}") | none => bad
  | ["mask", n] => match int? n with
    | some n => let (m, nb) := Util.generate_mask n; (st, s!"ok {m} {nb}")
    | none => bad
  | ["n2b", num, maxval] =>
    match int? num, int? maxval with
    | some num, some maxval => (st, showR hexStr (numberToBytes num maxval))
    | _, _ => bad
  | ["b2n", h] => match parseHex h with
    | some b => (st, showR toString (bytesToNumber b))
    | none => bad
  | ["randrange", a, b, ent] =>
    match int? a, int? b, parseHex ent with
    | some a, some b, some ent =>
      (st, showR (fun (r : Int × Entropy) => s!"{r.1} {ent.length - r.2.stream.length}") (unbiasedRandrange a b ⟨ent⟩))
    | _, _, _ => bad
  | ["g.sizes", gid] =>
    match nat? gid >>= (find · st.groups) with
    | some g => let G := g.toGroup; (st, s!"ok {G.scalarSize} {G.elemSize} {G.order}")
    | none => bad
  | ["g.dec", gid, h] =>
    match nat? gid >>= (find · st.groups), parseHex h with
    | some g, some b => (st, showR (fun e => (mkElem g e).show) (g.toGroup.dec b))
    | _, _ => bad
  | ["g.arb", gid, h] =>
    match nat? gid >>= (find · st.groups), parseHex h with
    | some g, some b => (st, showR (fun e => (mkElem g e).show) (g.toGroup.arb b))
    | _, _ => bad
  | ["g.p2s", gid, h] =>
    match nat? gid >>= (find · st.groups), parseHex h with
    | some g, some b => (st, s!"ok {g.toGroup.p2s b}")
    | _, _ => bad
  | ["g.senc", gid, n] =>
    match nat? gid >>= (find · st.groups), int? n with
    | some g, some n => (st, showR hexStr (g.toGroup.scalarEnc n))
    | _, _ => bad
  | ["g.sdec", gid, h] =>
    match nat? gid >>= (find · st.groups), parseHex h with
    | some g, some b => (st, showR toString (g.toGroup.scalarDec b))
    | _, _ => bad
  | ["g.rand", gid, h] =>
    match nat? gid >>= (find · st.groups), parseHex h with
    | some g, some b =>
      (st, showR (fun (r : Int × Entropy) => s!"{r.1} {b.length - r.2.stream.length}") (g.toGroup.randomScalar ⟨b⟩))
    | _, _ => bad
  | ["e.base", eid, gid] =>
    match nat? eid, nat? gid >>= (find · st.groups) with
    | some eid, some g => let e := mkElem g g.toGroup.base; ({ st with elems := st.elems.insert eid e }, "ok " ++ e.show)
    | _, _ => bad
  | ["e.zero", eid, gid] =>
    match nat? eid, nat? gid >>= (find · st.groups) with
    | some eid, some g => let e := mkElem g g.toGroup.zero; ({ st with elems := st.elems.insert eid e }, "ok " ++ e.show)
    | _, _ => bad
  | ["e.dec", eid, gid, h] =>
    match nat? eid, nat? gid >>= (find · st.groups), parseHex h with
    | some eid, some g, some b =>
      match g.toGroup.dec b with
      | .ok e => let e := mkElem g e; ({ st with elems := st.elems.insert eid e }, "ok " ++ e.show)
      | .error e => (st, errStr e)
    | _, _, _ => bad
  | ["e.decu", eid, gid, h] =>
    match nat? eid, nat? gid >>= (find · st.groups), parseHex h with
    | some eid, some (.ed c), some b =>
      match Ed25519.decUnknown c b with
      | .ok e => let e := DElem.ed c e; ({ st with elems := st.elems.insert eid e }, "ok " ++ e.show)
      | .error e => (st, errStr e)
    | _, _, _ => bad
  | ["e.arb", eid, gid, h] =>
    match nat? eid, nat? gid >>= (find · st.groups), parseHex h with
    | some eid, some g, some b =>
      match g.toGroup.arb b with
      | .ok e => let e := mkElem g e; ({ st with elems := st.elems.insert eid e }, "ok " ++ e.show)
      | .error e => (st, errStr e)
    | _, _, _ => bad
  | ["e.add", eid, a, b] =>
    match nat? eid, nat? a >>= (findE · st.elems), nat? b >>= (findE · st.elems) with
    | some eid, some a, some b =>
      match elemBin "add" a b with
      | .ok e => ({ st with elems := st.elems.insert eid e }, "ok " ++ e.show)
      | .error e => (st, errStr e)
    | _, _, _ => bad
  | ["e.sub", eid, a, b] =>
    match nat? eid, nat? a >>= (findE · st.elems), nat? b >>= (findE · st.elems) with
    | some eid, some a, some b =>
      match elemBin "sub" a b with
      | .ok e => ({ st with elems := st.elems.insert eid e }, "ok " ++ e.show)
      | .error e => (st, errStr e)
    | _, _, _ => bad
  | ["e.smul", eid, a, n] =>
    match nat? eid, nat? a >>= (findE · st.elems), int? n with
    | some eid, some a, some n =>
      let r : R DElem := match a with
        | .int P v => (IG.smul P v n).map (DElem.int P)
        | .ed c v => (Ed25519.smul c v n).map (DElem.ed c)
      match r with
      | .ok e => ({ st with elems := st.elems.insert eid e }, "ok " ++ e.show)
      | .error e => (st, errStr e)
    | _, _, _ => bad
  | ["e.neg", eid, a] =>
    match nat? eid, nat? a >>= (findE · st.elems) with
    | some eid, some a =>
      let r : R DElem := match a with
        | .int _ _ => raise .AttributeError
        | .ed c v => (Ed25519.negate c v).map (DElem.ed c)
      match r with
      | .ok e => ({ st with elems := st.elems.insert eid e }, "ok " ++ e.show)
      | .error e => (st, errStr e)
    | _, _ => bad
  | ["e.eq", a, b] =>
    match nat? a >>= (findE · st.elems), nat? b >>= (findE · st.elems) with
    | some a, some b =>
      let r : Bool := match a, b with
        | .int P x, .int P' y => decide (P = P' ∧ x = y)
        | .ed c x, .ed _ y => Ed25519.eq c x y
        | _, _ => false
      (st, s!"ok {r}")
    | _, _ => bad
  | ["e.enc", a] =>
    match nat? a >>= (findE · st.elems) with
    | some a => (st, "ok " ++ a.show)
    | none => bad
  | ["final", idA, idB, x, y, k, pw] =>
    match parseHex idA, parseHex idB, parseHex x, parseHex y, parseHex k, parseHex pw with
    | some idA, some idB, some x, some y, some k, some pw => (st, "ok " ++ hexStr (finalizeSPAKE2 idA idB x y k pw))
    | _, _, _, _, _, _ => bad
  | ["finalsym", idS, m1, m2, k, pw] =>
    match parseHex idS, parseHex m1, parseHex m2, parseHex k, parseHex pw with
    | some idS, some m1, some m2, some k, some pw => (st, "ok " ++ hexStr (finalizeSymmetric idS m1 m2 k pw))
    | _, _, _, _, _ => bad
  | ["sha", h] => match parseHex h with
    | some b => (st, "ok " ++ hexStr (Sha.sha256 b))
    | none => bad
  | ["hkdf", ikm, salt, info, len] =>
    match parseHex ikm, parseHex salt, parseHex info, nat? len with
    | some ikm, some salt, some info, some len => (st, "ok " ++ hexStr (Sha.hkdf ikm salt info len))
    | _, _, _, _ => bad
  | ["ed.consts", gid] =>
    match nat? gid >>= (find · st.groups) with
    | some (.ed c) => (st, s!"ok {c.Q} {c.L} {c.d} {c.I} {c.B.1} {c.B.2}")
    | _ => bad
  | "ed.add" :: gid :: rest | "ed.addnu" :: gid :: rest =>
    match nat? gid >>= (find · st.groups), rest.mapM int? with
    | some (.ed c), some [x1, y1, z1, t1, x2, y2, z2, t2] =>
      let r := if ws.head! = "ed.add" then Ed.add_elements c.Q c.d (x1, y1, z1, t1) (x2, y2, z2, t2)
               else Ed.add_elements_nonunfied c.Q (x1, y1, z1, t1) (x2, y2, z2, t2)
      (st, "ok " ++ p4Str r)
    | _, _ => bad
  | ["ed.dbl", gid, x, y, z, t] =>
    match nat? gid >>= (find · st.groups), [x, y, z, t].mapM int? with
    | some (.ed c), some [x, y, z, t] => (st, "ok " ++ p4Str (Ed.double_element c.Q (x, y, z, t)))
    | _, _ => bad
  | ["ed.smul", gid, x, y, z, t, n] | ["ed.smulslow", gid, x, y, z, t, n] =>
    match nat? gid >>= (find · st.groups), [x, y, z, t, n].mapM int? with
    | some (.ed c), some [x, y, z, t, n] =>
      if n < 0 then (st, "raise:other/AssertionError") else
      let r := if ws.head! = "ed.smul" then Ed.scalarmult_element c.Q (x, y, z, t) n
               else Ed.scalarmult_element_safe_slow c.Q c.d (x, y, z, t) n
      (st, "ok " ++ p4Str r)
    | _, _ => bad
  | ["ed.xrec", gid, y] =>
    match nat? gid >>= (find · st.groups), int? y with
    | some (.ed c), some y => (st, s!"ok {Ed.xrecover c.Q c.d c.I y}")
    | _, _ => bad
  | ["ed.inv", gid, y] =>
    match nat? gid >>= (find · st.groups), int? y with
    | some (.ed c), some y => (st, s!"ok {Ed.inv c.Q y}")
    | _, _ => bad
  | ["ed.onc", gid, x, y] =>
    match nat? gid >>= (find · st.groups), int? x, int? y with
    | some (.ed c), some x, some y => (st, s!"ok {Ed.isoncurve c.Q c.d (x, y)}")
    | _, _, _ => bad
  | ["ed.isz", gid, x, y, z, t] =>
    match nat? gid >>= (find · st.groups), [x, y, z, t].mapM int? with
    | some (.ed c), some [x, y, z, t] => (st, s!"ok {Ed.is_extended_zero c.Q (x, y, z, t)}")
    | _, _ => bad
  | ["ed.aff", gid, x, y, z, t] =>
    match nat? gid >>= (find · st.groups), [x, y, z, t].mapM int? with
    | some (.ed c), some [x, y, z, t] =>
      let r := Ed.xform_extended_to_affine c.Q (x, y, z, t); (st, s!"ok {r.1} {r.2}")
    | _, _ => bad
  | ["ed.ext", gid, x, y] =>
    match nat? gid >>= (find · st.groups), int? x, int? y with
    | some (.ed c), some x, some y => (st, "ok " ++ p4Str (Ed.xform_affine_to_extended c.Q (x, y)))
    | _, _, _ => bad
  | ["ig.add", gid, a, b] =>
    match nat? gid >>= (find · st.groups), int? a, int? b with
    | some (.int P), some a, some b => (st, s!"ok {IntGroup.add P.p a b}")
    | _, _, _ => bad
  | ["ig.smul", gid, a, n] =>
    match nat? gid >>= (find · st.groups), int? a, int? n with
    | some (.int P), some a, some n => (st, s!"ok {IntGroup.scalarmult P.p P.q a n}")
    | _, _, _ => bad
  | ["ig.mem", gid, a] =>
    match nat? gid >>= (find · st.groups), int? a with
    | some (.int P), some a => (st, s!"ok {IntGroup.is_member P.p P.q a}")
    | _, _ => bad
  | ["reset"] => ({}, "ok")
  | _ => bad

partial def loop (h : IO.FS.Stream) (out : IO.FS.Stream) (st : St) : IO Unit := do
  let line ← h.getLine
  if line.isEmpty then return ()
  let (st', o) := step st line
  out.putStrLn o
  loop h out st'

end Driver
end Spake2Model
