import Spake2Model.Model.Util
import Spake2Model.Model.Sha256
import Spake2Model.Gen.IntGroupArith
/-!
Model of `groups.py`: `password_to_scalar`, `IntegerGroup(p, q, g)`.
Elements are their integer value; the arithmetic is the *generated* code.
-/
namespace Spake2Model
open Gen

def expandPassword (pw : Bytes) (n : Nat) : Bytes := Sha.hkdf pw IntGroup.info_pw_salt IntGroup.info_pw n
def expandArbSeed (seed : Bytes) (n : Nat) : Bytes := Sha.hkdf seed IntGroup.info_arb_salt IntGroup.info_arb n

/-- `password_to_scalar(pw, scalar_size_bytes, q)` -/
def passwordToScalar (pw : Bytes) (scalarSize : Nat) (q : Int) : Int :=
  IntGroup.p2s_reduce q (Int.ofNat (beToNat (expandPassword pw (IntGroup.p2s_len scalarSize).toNat)))

structure IntGroupParams where
  p : Int
  q : Int
  g : Int
  deriving Repr, DecidableEq

namespace IG
variable (P : IntGroupParams)

def scalarSize : Nat := sizeBytes P.q
def elemSize : Nat := sizeBytes P.p

/-- the constructor's observable behaviour: it raises unless `pow(g, q, p) == 1` -/
def ctor : R Unit :=
  if IntGroup.ctor_ok P.p P.q P.g then .ok () else raise .AssertionError

def add (a b : Int) : R Int := .ok (IntGroup.add P.p a b)
def smul (a : Int) (i : Int) : R Int := .ok (IntGroup.scalarmult P.p P.q a i)
def enc (a : Int) : Bytes :=
  match numberToBytes a P.p with
  | .ok b => b
  | .error _ => []          -- unreachable for values produced by the group (0 ≤ a < p)

def dec (b : Bytes) : R Int :=
  if b.length ≠ elemSize P then raise .AssertionError else
  match bytesToNumber b with
  | .error e => .error e
  | .ok i =>
    if i ≤ 0 ∨ i ≥ P.p then raise .ValueError
    else if !(IntGroup.is_member P.p P.q i) then raise .ValueError
    else .ok i

def scalarEnc (i : Int) : R Bytes := numberToBytes i P.q

def scalarDec (b : Bytes) : R Int :=
  if b.length ≠ scalarSize P then raise .AssertionError else
  match bytesToNumber b with
  | .error e => .error e
  | .ok i => if 0 ≤ i ∧ i < P.q then .ok i else raise .AssertionError

def p2s (pw : Bytes) : Int := passwordToScalar pw (scalarSize P) P.q

def arb (seed : Bytes) : R Int :=
  let processed := expandArbSeed seed (elemSize P)
  let r := IntGroup.arb_r P.p P.q
  if r * P.q ≠ P.p - 1 then raise .AssertionError else
  match bytesToNumber processed with
  | .error e => .error e
  | .ok n =>
    let h := IntGroup.arb_h P.p n
    let e := IntGroup.arb_elem P.p h r
    if IntGroup.is_member P.p P.q e then .ok e else raise .AssertionError

def randomScalar (ent : Entropy) : R (Int × Entropy) := unbiasedRandrange 0 P.q ent

end IG
end Spake2Model
