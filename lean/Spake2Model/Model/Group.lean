import Spake2Model.Model.IntGroup
import Spake2Model.Model.Ed25519
/-!
`Group`: the record of operations the protocol layer (`spake2.py`) uses from a group object and
its elements.  Two constructors: `intGroup P` and `edGroup c`.
-/
namespace Spake2Model

structure Group where
  Elem : Type
  scalarSize : Nat
  elemSize : Nat
  order : Int
  base : Elem
  zero : Elem
  add : Elem → Elem → R Elem
  smul : Elem → Int → R Elem
  enc : Elem → Bytes
  dec : Bytes → R Elem
  scalarEnc : Int → R Bytes
  scalarDec : Bytes → R Int
  p2s : Bytes → Int
  arb : Bytes → R Elem
  randomScalar : Entropy → R (Int × Entropy)
  /-- `a.negate()` where the class offers it -/
  neg : Elem → R Elem
  /-- `a == b` -/
  eq : Elem → Elem → Bool

def intGroup (P : IntGroupParams) : Group where
  Elem := Int
  scalarSize := IG.scalarSize P
  elemSize := IG.elemSize P
  order := P.q
  base := P.g
  zero := 1
  add := IG.add P
  smul := IG.smul P
  enc := IG.enc P
  dec := IG.dec P
  scalarEnc := IG.scalarEnc P
  scalarDec := IG.scalarDec P
  p2s := IG.p2s P
  arb := IG.arb P
  randomScalar := IG.randomScalar P
  neg := fun _ => raise .AttributeError
  eq := fun a b => decide (a = b)

def edGroup (c : Curve) : Group where
  Elem := EdElem
  scalarSize := Gen.Consts.ed_scalar_size_bytes.toNat
  elemSize := Gen.Consts.ed_element_size_bytes.toNat
  order := c.L
  base := Ed25519.Base c
  zero := Ed25519.Zero c
  add := Ed25519.add c
  smul := Ed25519.smul c
  enc := Ed25519.toBytes c
  dec := Ed25519.dec c
  scalarEnc := Ed25519.scalarEnc c
  scalarDec := Ed25519.scalarDec
  p2s := Ed25519.p2s c
  arb := Ed25519.arb c
  randomScalar := Ed25519.randomScalar c
  neg := Ed25519.negate c
  eq := Ed25519.eq c

end Spake2Model
