import Spake2Model.Model.Spake2
/-!
A multi-session system over one group `G` and one immutable table of parameter sets.

`Sys G` holds an association list of sessions keyed by a session id and an association list of
parameter sets keyed by a parameter id.  `Sys.step s sid op` applies one operation to session
`sid` and is built only from `Inst.new / Inst.start / Inst.finish / Inst.serialize /
fromSerialized`; `Sys.run` folds a schedule (a list of `(sid, op)` pairs) over a system and
collects the `(sid, output)` pairs in order.
-/
namespace Spake2Model

/-- association-list lookup (first match) -/
def alookup {α : Type} (k : Nat) : List (Nat × α) → Option α
  | [] => none
  | (k', v) :: r => if k = k' then some v else alookup k r

/-- association-list update in place (appends when the key is new) -/
def aput {α : Type} (k : Nat) (v : α) : List (Nat × α) → List (Nat × α)
  | [] => [(k, v)]
  | (k', v') :: r => if k = k' then (k, v) :: r else (k', v') :: aput k v r

structure Sys (G : Group) where
  sessions : List (Nat × Inst G) := []
  params : List (Nat × Params G) := []

/-- the operations on one session -/
inductive SOp
  /-- `SPAKE2_x(pw, idA, idB, params = table[pid], entropy_f = ent)`; creates / overwrites the session -/
  | new (side : Side) (pid : Nat) (pw idA idB : Bytes) (ent : Entropy)
  | start
  | finish (msg : Bytes)
  | serialize
  /-- `SPAKE2_x.from_serialized(data, params = table[pid])`; creates / overwrites the session on success -/
  | restore (side : Side) (pid : Nat) (data : Bytes)
  deriving Repr, DecidableEq

inductive SOut
  | ok (b : Bytes)
  | done
  | err (e : Err)
  /-- the session id (for `start/finish/serialize`) or the parameter id (for `new/restore`) is unknown -/
  | nosuch
  deriving Repr, DecidableEq

def SOut.ofR : R Bytes → SOut
  | .ok b => .ok b
  | .error e => .err e

variable {G : Group}

def Sys.session (s : Sys G) (sid : Nat) : Option (Inst G) := alookup sid s.sessions

def Sys.setSession (s : Sys G) (sid : Nat) (i : Inst G) : Sys G :=
  { s with sessions := aput sid i s.sessions }

/-- one operation on session `sid` -/
def Sys.step (s : Sys G) (sid : Nat) (op : SOp) : Sys G × SOut :=
  match op with
  | .new side pid pw idA idB ent =>
    match alookup pid s.params with
    | none => (s, .nosuch)
    | some p => (s.setSession sid (Inst.new side pw idA idB p ent), .done)
  | .start =>
    match s.session sid with
    | none => (s, .nosuch)
    | some i => let r := i.start; (s.setSession sid r.1, SOut.ofR r.2)
  | .finish msg =>
    match s.session sid with
    | none => (s, .nosuch)
    | some i => let r := i.finish msg; (s.setSession sid r.1, SOut.ofR r.2)
  | .serialize =>
    match s.session sid with
    | none => (s, .nosuch)
    | some i => (s, SOut.ofR i.serialize)
  | .restore side pid data =>
    match alookup pid s.params with
    | none => (s, .nosuch)
    | some p =>
      match fromSerialized side data p with
      | .error e => (s, .err e)
      | .ok i => (s.setSession sid i, .done)

/-- run a schedule; the outputs are tagged with the session id they belong to -/
def Sys.run (s : Sys G) : List (Nat × SOp) → Sys G × List (Nat × SOut)
  | [] => (s, [])
  | (sid, op) :: rest =>
    let r := s.step sid op
    let r' := r.1.run rest
    (r'.1, (sid, r.2) :: r'.2)

/-- a system with a given parameter table and no sessions -/
def Sys.init (params : List (Nat × Params G)) : Sys G := { sessions := [], params := params }

/-- the outputs of one session, in order -/
def outputsOf (sid : Nat) (outs : List (Nat × SOut)) : List SOut :=
  (outs.filter (fun p => p.1 = sid)).map (·.2)

end Spake2Model
