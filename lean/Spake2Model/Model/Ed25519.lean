import Spake2Model.Model.Util
import Spake2Model.Model.IntGroup
import Spake2Model.Gen.Ed25519Arith
import Spake2Model.Gen.Consts
/-!
Model of `ed25519_basic.py` / `ed25519_group.py`: point and scalar codecs, the
`Element / ElementOfUnknownGroup / _ZeroElement` class lattice with its promotion rules,
`arbitrary_element`, `bytes_to_element`.  Field and curve arithmetic is the *generated* code,
parametrised by the curve constants so that the same model also runs toy curves.
-/
namespace Spake2Model
open Gen

structure Curve where
  Q : Int
  L : Int
  d : Int
  I : Int
  B : Int × Int
  deriving Repr, DecidableEq

/-- the shipped curve: constants exactly as the module computes them -/
def ed25519 : Curve := { Q := Ed.Q_c, L := Ed.L_c, d := Ed.d_c, I := Ed.I_c, B := Ed.B_c }

abbrev P4 := Int × Int × Int × Int

inductive Kind | elem | unknown | zero
  deriving DecidableEq, Repr

/-- a Python element object: its class and its `XYTZ` tuple -/
structure EdElem where
  kind : Kind
  pt : P4
  deriving DecidableEq, Repr

namespace Ed25519
variable (c : Curve)

/-- `encodepoint(P)`: 32 bytes little-endian y with the parity of x in the top bit -/
def encodepoint (P : Int × Int) : R Bytes :=
  let (x, y) := P
  if ¬ (0 ≤ y ∧ y < Py.shl 1 255) then raise .AssertionError else
  let y := if Py.band x 1 ≠ 0 then y + Py.shl 1 255 else y
  .ok (natToLE 32 y.toNat)

/-- `decodepoint(s)` (reads `s[:32]`) -/
def decodepoint (s : Bytes) : R (Int × Int) :=
  let s32 := s.take 32
  if s32.isEmpty then raise .ValueError else
  let unclamped : Int := Int.ofNat (leToNat s32)
  let clamp : Int := Py.shl 1 255 - 1
  let y := Py.band unclamped clamp
  let x := Ed.xrecover c.Q c.d c.I y
  let x := if (decide (Py.band x 1 ≠ 0)) != (decide (Py.band unclamped (Py.shl 1 255) ≠ 0)) then c.Q - x else x
  if Ed.isoncurve c.Q c.d (x, y) then .ok (x, y) else .error (.other .NotOnCurve)

def zeroPt : P4 := Ed.xform_affine_to_extended c.Q (0, 1)
def Zero : EdElem := ⟨.zero, zeroPt c⟩
def Base : EdElem := ⟨.elem, Ed.xform_affine_to_extended c.Q c.B⟩

/-- `to_bytes` -/
def toBytesR (e : EdElem) : R Bytes := encodepoint (Ed.xform_extended_to_affine c.Q e.pt)

/-- `to_bytes`, total: the assertion in `encodepoint` cannot fail on reduced coordinates -/
def toBytes (e : EdElem) : Bytes :=
  match toBytesR c e with
  | .ok b => b
  | .error _ => []

def zeroBytes : Bytes := toBytes c (Zero c)

/-- `ElementOfUnknownGroup.add` -/
def addUnknown (a b : EdElem) : EdElem :=
  let s := Ed.add_elements c.Q c.d a.pt b.pt
  if Ed.is_extended_zero c.Q s then Zero c else ⟨.unknown, s⟩

/-- `a.add(b)` with the dispatch on the class of `a` -/
def add (a b : EdElem) : R EdElem :=
  match a.kind with
  | .zero => .ok b
  | .unknown => .ok (addUnknown c a b)
  | .elem =>
    if b.kind = .zero then .ok a else       -- (fix F2) adding Zero keeps the subgroup element
    let s := addUnknown c a b
    if s.kind = .zero then .ok s
    else if b.kind = .elem then .ok ⟨.elem, s.pt⟩
    else .ok s

/-- `a.scalarmult(s)` -/
def smul (a : EdElem) (s : Int) : R EdElem :=
  match a.kind with
  | .zero => .ok a
  | .unknown =>
    if s < 0 then raise .AssertionError
    else .ok ⟨.unknown, Ed.scalarmult_element_safe_slow c.Q c.d a.pt s⟩
  | .elem =>
    let s := s % c.L
    if s = 0 then .ok (Zero c) else .ok ⟨.elem, Ed.scalarmult_element c.Q a.pt s⟩

/-- `a.negate()` -/
def negate (a : EdElem) : R EdElem :=
  match a.kind with
  | .zero => .ok a
  | .unknown => raise .AttributeError
  | .elem => .ok ⟨.elem, Ed.scalarmult_element c.Q a.pt (Ed.negate_scalar c.L)⟩

/-- `a.subtract(b)` -/
def subtract (a b : EdElem) : R EdElem :=
  match a.kind with
  | .unknown => raise .AttributeError
  | _ => match negate c b with
    | .error e => .error e
    | .ok nb => add c a nb

/-- `a == b` -/
def eq (a b : EdElem) : Bool := toBytes c a == toBytes c b

/-- `bytes_to_scalar` -/
def scalarDec (b : Bytes) : R Int :=
  if b.length ≠ 32 then raise .AssertionError else .ok (Int.ofNat (leToNat b))

/-- `scalar_to_bytes` -/
def scalarEnc (y : Int) : R Bytes :=
  let y := y % c.L
  if ¬ (0 ≤ y ∧ y < 2^256) then raise .AssertionError else .ok (natToLE 32 y.toNat)

/-- `random_scalar(entropy_f)` -/
def randomScalar (ent : Entropy) : R (Int × Entropy) :=
  match ent.take Ed.random_scalar_bytes.toNat with
  | .error e => .error e
  | .ok (bs, ent') =>
    match bytesToNumber bs with
    | .error e => .error e
    | .ok n => .ok (n % c.L, ent')

def p2s (pw : Bytes) : Int := passwordToScalar pw Consts.ed_scalar_size_bytes.toNat c.L

/-- the `for plus in itertools.count(0)` loop of `arbitrary_element`, with fuel -/
def arbLoop (y : Int) : Nat → Int → R EdElem
  | 0, _ => raise .Fuel
  | fuel+1, plus =>
    let y_plus := (y + plus) % c.Q
    let x := Ed.xrecover c.Q c.d c.I y_plus
    if !(Ed.isoncurve c.Q c.d (x, y_plus)) then arbLoop y fuel (plus + 1) else
    let P := Ed.xform_affine_to_extended c.Q (x, y_plus)
    let P8 := Ed.scalarmult_element_safe_slow c.Q c.d P Ed.arb_cofactor
    if Ed.is_extended_zero c.Q P8 then arbLoop y fuel (plus + 1) else
    if Ed.is_extended_zero c.Q (Ed.scalarmult_element_safe_slow c.Q c.d P8 c.L) then .ok ⟨.elem, P8⟩
    else raise .AssertionError

/-- `arbitrary_element(seed)` -/
def arb (seed : Bytes) : R EdElem :=
  let hseed := expandArbSeed seed Ed.arb_seed_len.toNat
  match bytesToNumber hseed with
  | .error e => .error e
  | .ok n => arbLoop c (n % c.Q) 4096 0

/-- `bytes_to_unknown_group_element` -/
def decUnknown (b : Bytes) : R EdElem :=
  if b = zeroBytes c then .ok (Zero c) else
  match decodepoint c b with
  | .error e => .error e
  | .ok P => .ok ⟨.unknown, Ed.xform_affine_to_extended c.Q P⟩

/-- `bytes_to_element` -/
def dec (b : Bytes) : R EdElem :=
  match decUnknown c b with
  | .error e => .error e
  | .ok P =>
    if P.kind = .zero then raise .ValueError else
    if !(Ed.is_extended_zero c.Q (Ed.scalarmult_element_safe_slow c.Q c.d P.pt c.L)) then raise .ValueError else
    let e : EdElem := ⟨.elem, P.pt⟩
    if toBytes c e ≠ b then raise .ValueError     -- (fix F4) canonical, exact-length encodings only
    else .ok e

end Ed25519
end Spake2Model
