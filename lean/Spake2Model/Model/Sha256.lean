import Spake2Model.Model.Bytes
/-!
SHA-256, HMAC-SHA256 and HKDF-SHA256 on `List Nat`, written from FIPS 180-4 / RFC 2104 / RFC 5869.
The model's independent implementation of what the library obtains from `hashlib` and
`cryptography`; compared with them by the correspondence check on every run.
-/
namespace Spake2Model
namespace Sha
def K : List Nat := [
0x428a2f98,0x71374491,0xb5c0fbcf,0xe9b5dba5,0x3956c25b,0x59f111f1,0x923f82a4,0xab1c5ed5,
0xd807aa98,0x12835b01,0x243185be,0x550c7dc3,0x72be5d74,0x80deb1fe,0x9bdc06a7,0xc19bf174,
0xe49b69c1,0xefbe4786,0x0fc19dc6,0x240ca1cc,0x2de92c6f,0x4a7484aa,0x5cb0a9dc,0x76f988da,
0x983e5152,0xa831c66d,0xb00327c8,0xbf597fc7,0xc6e00bf3,0xd5a79147,0x06ca6351,0x14292967,
0x27b70a85,0x2e1b2138,0x4d2c6dfc,0x53380d13,0x650a7354,0x766a0abb,0x81c2c92e,0x92722c85,
0xa2bfe8a1,0xa81a664b,0xc24b8b70,0xc76c51a3,0xd192e819,0xd6990624,0xf40e3585,0x106aa070,
0x19a4c116,0x1e376c08,0x2748774c,0x34b0bcb5,0x391c0cb3,0x4ed8aa4a,0x5b9cca4f,0x682e6ff3,
0x748f82ee,0x78a5636f,0x84c87814,0x8cc70208,0x90befffa,0xa4506ceb,0xbef9a3f7,0xc67178f2]
def H0 : List Nat := [0x6a09e667,0xbb67ae85,0x3c6ef372,0xa54ff53a,0x510e527f,0x9b05688c,0x1f83d9ab,0x5be0cd19]
@[inline] def m32 (x : Nat) : Nat := x % 4294967296
@[inline] def rotr (x n : Nat) : Nat := (x >>> n) ||| m32 (x <<< (32 - n))
def bsig0 (x : Nat) := rotr x 2 ^^^ rotr x 13 ^^^ rotr x 22
def bsig1 (x : Nat) := rotr x 6 ^^^ rotr x 11 ^^^ rotr x 25
def ssig0 (x : Nat) := rotr x 7 ^^^ rotr x 18 ^^^ (x >>> 3)
def ssig1 (x : Nat) := rotr x 17 ^^^ rotr x 19 ^^^ (x >>> 10)
def ch (x y z : Nat) := (x &&& y) ^^^ ((4294967295 ^^^ x) &&& z)
def maj (x y z : Nat) := (x &&& y) ^^^ (x &&& z) ^^^ (y &&& z)

/-- message schedule: `w` is kept reversed (most recent first) -/
def schedule : Nat → List Nat → List Nat
  | 0, w => w
  | n+1, w =>
    match w with
    | _ :: w2 :: _ =>
      let w7 := w.getD 6 0; let w15 := w.getD 14 0; let w16 := w.getD 15 0
      schedule n (m32 (ssig1 w2 + w7 + ssig0 w15 + w16) :: w)
    | _ => w
structure St where (a b c d e f g h : Nat)
def round (s : St) (kw : Nat × Nat) : St :=
  let t1 := s.h + bsig1 s.e + ch s.e s.f s.g + kw.1 + kw.2
  let t2 := bsig0 s.a + maj s.a s.b s.c
  ⟨m32 (t1 + t2), s.a, s.b, s.c, m32 (s.d + t1), s.e, s.f, s.g⟩
def be32 : List Nat → List Nat
  | a :: b :: c :: d :: r => (a * 16777216 + b * 65536 + c * 256 + d) :: be32 r
  | _ => []
def compress (h : List Nat) (block : List Nat) : List Nat :=
  let w := (schedule 48 (be32 block).reverse).reverse
  match h with
  | [a,b,c,d,e,f,g,hh] =>
    let s := (K.zip w).foldl round ⟨a,b,c,d,e,f,g,hh⟩
    [m32 (a+s.a), m32 (b+s.b), m32 (c+s.c), m32 (d+s.d), m32 (e+s.e), m32 (f+s.f), m32 (g+s.g), m32 (hh+s.h)]
  | _ => h
def pad (msg : List Nat) : List Nat :=
  let l := msg.length
  let z := (55 + 64 - l % 64) % 64
  msg ++ [0x80] ++ List.replicate z 0 ++ natToBE 8 (8*l)
def blocks : Nat → List Nat → List Nat → List Nat
  | 0, h, _ => h
  | n+1, h, m => if m.isEmpty then h else blocks n (compress h (m.take 64)) (m.drop 64)
def sha256 (msg : Bytes) : Bytes :=
  let p := pad msg
  (blocks (p.length / 64) H0 p).flatMap (fun w => natToBE 4 w)
def xorPad (key : List Nat) (c : Nat) : List Nat := (key ++ List.replicate (64 - key.length) 0).map (· ^^^ c)
def hmac (key msg : Bytes) : Bytes :=
  let k := if key.length > 64 then sha256 key else key
  sha256 (xorPad k 0x5c ++ sha256 (xorPad k 0x36 ++ msg))
def hkdfExpand (prk info : Bytes) : Nat → Nat → Bytes → Bytes → Bytes
  | 0, _, _, acc => acc
  | n+1, i, t, acc => let t' := hmac prk (t ++ info ++ [i]); hkdfExpand prk info n (i+1) t' (acc ++ t')
/-- HKDF-SHA256(ikm, salt, info, len) for len ≤ 255*32 -/
def hkdf (ikm salt info : Bytes) (len : Nat) : Bytes :=
  let prk := hmac salt ikm
  (hkdfExpand prk info ((len + 31) / 32) 1 [] []).take len
end Sha
end Spake2Model
