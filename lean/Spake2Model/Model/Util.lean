import Spake2Model.Model.Bytes
import Spake2Model.Gen.UtilArith
/-!
Model of `util.py`: errors, `number_to_bytes`, `bytes_to_number`, entropy streams, `unbiased_randrange`.
Arithmetic kernels (`size_bits`, `size_bytes`, `generate_mask`, acceptance test) are the *generated* ones.
-/
namespace Spake2Model
open Gen

/-- non-SPAKE exceptions, kept only for diagnostics (the protocol-level observation is `other`) -/
inductive PyExc
  | ValueError | AssertionError | TypeError | AttributeError | KeyError | NotOnCurve
  | BinasciiError | UnicodeError | JSONDecodeError | EntropyExhausted | ZeroDivisionError | IndexError | Fuel
  deriving DecidableEq, Repr

inductive Err
  | OnlyCallStartOnce | OnlyCallFinishOnce | OffSides | SerializedTooEarly
  | WrongSideSerialized | WrongGroupError | ReflectionThwarted
  | other (e : PyExc)
  deriving DecidableEq, Repr

abbrev R (α : Type) := Except Err α

def raise {α : Type} (e : PyExc) : R α := .error (.other e)

def sizeBits (maxval : Int) : Nat := (Util.size_bits maxval).toNat
def sizeBytes (maxval : Int) : Nat := (Util.size_bytes maxval).toNat

/-- `number_to_bytes(num, maxval)` -/
def numberToBytes (num maxval : Int) : R Bytes :=
  if num > maxval then raise .ValueError
  else if num < 0 then raise .BinasciiError      -- "%0Nx" % negative contains '-': unhexlify fails
  else .ok (natToBE (sizeBytes maxval) num.toNat)

/-- `bytes_to_number(s)` : `int(hexlify(s), 16)`; the empty string is a `ValueError` -/
def bytesToNumber (s : Bytes) : R Int :=
  if s.isEmpty then raise .ValueError else .ok (Int.ofNat (beToNat s))

/-- the entropy function of the harness: serves successive slices of one finite byte stream -/
structure Entropy where
  stream : Bytes
  deriving Repr, DecidableEq

def Entropy.take (e : Entropy) (n : Nat) : R (Bytes × Entropy) :=
  if e.stream.length < n then raise .EntropyExhausted
  else .ok (e.stream.take n, ⟨e.stream.drop n⟩)

/-- `mask_list_of_ints` -/
def maskTop (mask : Nat) : Bytes → Bytes
  | [] => []
  | b :: bs => (mask &&& b) :: bs

/-- one round of the `while True` loop: `none` = candidate rejected -/
def randrangeLoop (mask nb : Nat) (maxval start : Int) : Nat → Entropy → R (Int × Entropy)
  | 0, _ => raise .Fuel
  | fuel+1, ent =>
    match ent.take nb with
    | .error e => .error e
    | .ok (bs, ent') =>
      let cand : Int := Int.ofNat (beToNat (maskTop mask bs))
      if Util.randrange_accept maxval cand then .ok (Util.randrange_result start cand, ent')
      else randrangeLoop mask nb maxval start fuel ent'

/-- `unbiased_randrange(start, stop, entropy_f)`; every round consumes `nb ≥ 1` bytes, so
`stream.length + 1` rounds of fuel always suffice. -/
def unbiasedRandrange (start stop : Int) (ent : Entropy) : R (Int × Entropy) :=
  let maxval := Util.randrange_maxval start stop
  let (mask, nb) := Util.generate_mask maxval
  randrangeLoop mask.toNat nb.toNat maxval start (ent.stream.length + 1) ent

end Spake2Model
