import Spake2Model.Model.Group
import Spake2Model.Model.Json
/-!
Model of `spake2.py`: the three session classes as one record with a `side`, the
`start / finish / serialize / from_serialized` state machine (flags are set *before* the work,
as in the code), the two transcript functions and the parameter fingerprint.
-/
namespace Spake2Model
open Gen

inductive Side | A | B | S
  deriving DecidableEq, Repr

def Side.byte : Side → Bytes
  | .A => Consts.sideA
  | .B => Consts.sideB
  | .S => Consts.sideS

/-- `_Params(group, M, N, S)` : the three blinding elements -/
structure Params (G : Group) where
  M : G.Elem
  N : G.Elem
  S : G.Elem

def mkParams (G : Group) (mSeed nSeed sSeed : Bytes) : R (Params G) := do
  let M ← G.arb mSeed
  let N ← G.arb nSeed
  let S ← G.arb sSeed
  pure ⟨M, N, S⟩

def defaultParams (G : Group) : R (Params G) := mkParams G Consts.seedM Consts.seedN Consts.seedS

/-- `finalize_SPAKE2` -/
def finalizeSPAKE2 (idA idB X Y K pw : Bytes) : Bytes :=
  Sha.sha256 (Sha.sha256 pw ++ Sha.sha256 idA ++ Sha.sha256 idB ++ X ++ Y ++ K)

/-- `finalize_SPAKE2_symmetric` -/
def finalizeSymmetric (idS m1 m2 K pw : Bytes) : Bytes :=
  let (f, s) := sorted2 m1 m2
  Sha.sha256 (Sha.sha256 pw ++ Sha.sha256 idS ++ f ++ s ++ K)

/-- one session object; `idA` holds `idSymmetric` for side `S` (then `idB` is unused) -/
structure Inst (G : Group) where
  side : Side
  pw : Bytes
  idA : Bytes
  idB : Bytes
  params : Params G
  pwScalar : Int
  entropy : Entropy
  started : Bool := false
  finished : Bool := false
  xyScalar : Option Int := none
  outbound : Option Bytes := none
  inbound : Option Bytes := none

variable {G : Group}

/-- the constructor -/
def Inst.new (side : Side) (pw idA idB : Bytes) (params : Params G) (ent : Entropy) : Inst G :=
  { side, pw, idA, idB, params, pwScalar := G.p2s pw, entropy := ent }

def Inst.myBlinding (i : Inst G) : G.Elem :=
  match i.side with | .A => i.params.M | .B => i.params.N | .S => i.params.S
def Inst.myUnblinding (i : Inst G) : G.Elem :=
  match i.side with | .A => i.params.N | .B => i.params.M | .S => i.params.S

/-- `compute_outbound_message` for secret scalar `x` -/
def Inst.outboundFor (i : Inst G) (x : Int) : R Bytes := do
  let xy ← G.smul G.base x
  let bl ← G.smul i.myBlinding i.pwScalar
  let m ← G.add xy bl
  pure (G.enc m)

/-- `start()` : new state and result -/
def Inst.start (i : Inst G) : Inst G × R Bytes :=
  if i.started then (i, .error .OnlyCallStartOnce) else
  let i := { i with started := true }
  match G.randomScalar i.entropy with
  | .error e => (i, .error e)
  | .ok (x, ent) =>
    let i := { i with entropy := ent, xyScalar := some x }
    match i.outboundFor x with
    | .error e => (i, .error e)
    | .ok ob => ({ i with outbound := some ob }, .ok (i.side.byte ++ ob))

/-- `_extract_message` -/
def extractMessage (side : Side) (msg : Bytes) : R Bytes :=
  let other := msg.take 1
  let inbound := msg.drop 1
  match side with
  | .S =>
    if other = Consts.sideA then .error .OffSides
    else if other = Consts.sideB then .error .OffSides
    else if other ≠ Consts.sideS then raise .AssertionError
    else .ok inbound
  | s =>
    if other ≠ Consts.sideA ∧ other ≠ Consts.sideB then .error .OffSides
    else if s.byte = other then .error .OffSides
    else .ok inbound

/-- `_finalize` -/
def Inst.finalize (i : Inst G) (inbound outbound K : Bytes) : Bytes :=
  match i.side with
  | .A => finalizeSPAKE2 i.idA i.idB outbound inbound K i.pw
  | .B => finalizeSPAKE2 i.idA i.idB inbound outbound K i.pw
  | .S => finalizeSymmetric i.idA inbound outbound K i.pw

/-- the part of `finish()` after the inbound message has been extracted -/
def Inst.finishKey (i : Inst G) (inb : Bytes) : R Bytes := do
  let e ← G.dec inb
  let ob ← match i.outbound with | some ob => pure ob | none => raise .AttributeError
  if G.enc e = ob then .error .ReflectionThwarted else
  let unb ← G.smul i.myUnblinding (-i.pwScalar)
  let s ← G.add e unb
  let x ← match i.xyScalar with | some x => pure x | none => raise .AttributeError
  let K ← G.smul s x
  pure (i.finalize inb ob (G.enc K))

/-- `finish(msg)` : new state and result -/
def Inst.finish (i : Inst G) (msg : Bytes) : Inst G × R Bytes :=
  if i.finished then (i, .error .OnlyCallFinishOnce) else
  let i := { i with finished := true }
  match extractMessage i.side msg with
  | .error e => (i, .error e)
  | .ok inb =>
    let i := { i with inbound := some inb }
    (i, i.finishKey inb)

/-- `hash_params()` as bytes of the lower-case hex digest -/
def Inst.hashParams (i : Inst G) : R Bytes := do
  let a ← G.arb []
  let s ← G.scalarEnc (G.p2s [])
  let pieces := match i.side with
    | .S => G.enc a ++ s ++ G.enc i.params.S
    | _ => G.enc a ++ s ++ G.enc i.params.M ++ G.enc i.params.N
  pure (hexlify (Sha.sha256 pieces))

def k_hashed_params : Bytes := asciiOf "hashed_params"
def k_side : Bytes := asciiOf "side"
def k_idA : Bytes := asciiOf "idA"
def k_idB : Bytes := asciiOf "idB"
def k_idS : Bytes := asciiOf "idS"
def k_password : Bytes := asciiOf "password"
def k_xy_scalar : Bytes := asciiOf "xy_scalar"

/-- `_serialize_to_dict` -/
def Inst.toDict (i : Inst G) : R Json.Dict := do
  let hp ← i.hashParams
  let x ← match i.xyScalar with | some x => pure x | none => raise .AttributeError
  let xs ← G.scalarEnc x
  match i.side with
  | .S => pure [(k_hashed_params, hp), (k_side, i.side.byte), (k_idS, hexlify i.idA),
                (k_password, hexlify i.pw), (k_xy_scalar, hexlify xs)]
  | _ => pure [(k_hashed_params, hp), (k_side, i.side.byte), (k_idA, hexlify i.idA), (k_idB, hexlify i.idB),
               (k_password, hexlify i.pw), (k_xy_scalar, hexlify xs)]

/-- `serialize()` (does not change the instance) -/
def Inst.serialize (i : Inst G) : R Bytes :=
  if !i.started then .error .SerializedTooEarly else do
  let d ← i.toDict
  pure (Json.dumps d)

def getHex (d : Json.Dict) (k : Bytes) : R Bytes :=
  match Json.lookup k d with
  | none => raise .KeyError
  | some v => match unhexlify v with
    | none => raise .BinasciiError
    | some b => .ok b

def getStr (d : Json.Dict) (k : Bytes) : R Bytes :=
  match Json.lookup k d with
  | none => raise .KeyError
  | some v => .ok v

/-- the common tail of both `_deserialize_from_dict` -/
def restoreTail (i : Inst G) (d : Json.Dict) : R (Inst G) := do
  let hp ← getStr d k_hashed_params
  let mine ← i.hashParams
  if hp ≠ mine then .error .WrongGroupError else
  let xb ← getHex d k_xy_scalar
  let x ← G.scalarDec xb
  let i := { i with started := true, xyScalar := some x }
  let ob ← i.outboundFor x
  pure { i with outbound := some ob }

/-- `klass._deserialize_from_dict(d, params)` -/
def fromDict (side : Side) (d : Json.Dict) (params : Params G) : R (Inst G) :=
  match side with
  | .S => do
    let sd ← getStr d k_side
    if sd ≠ Consts.sideS then .error .WrongSideSerialized else
    let pw ← getHex d k_password
    let idS ← getHex d k_idS
    restoreTail (Inst.new .S pw idS [] params ⟨[]⟩) d
  | s => do
    let pw ← getHex d k_password
    let idA ← getHex d k_idA
    let idB ← getHex d k_idB
    let sd ← getStr d k_side
    if sd ≠ s.byte then .error .WrongSideSerialized else
    restoreTail (Inst.new s pw idA idB params ⟨[]⟩) d

/-- `klass.from_serialized(data, params)` -/
def fromSerialized (side : Side) (data : Bytes) (params : Params G) : R (Inst G) :=
  if data.any (· ≥ 128) then raise .UnicodeError else
  match Json.parse data with
  | none => raise .JSONDecodeError
  | some d => fromDict side d params

end Spake2Model
