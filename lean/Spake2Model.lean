-- Root of the Mathlib-free executable model (generated code + hand-written model + driver).
import Spake2Model.Py
import Spake2Model.Gen.Consts
import Spake2Model.Gen.Ed25519Arith
import Spake2Model.Gen.EdShape
import Spake2Model.Gen.IntGroupArith
import Spake2Model.Gen.ProtoShape
import Spake2Model.Gen.UtilArith
import Spake2Model.Model.Driver
import Spake2Model.Model.System
import Spake2Model.Gen.ProtoFlow
import Spake2Model.Gen.GroupShape
