"""Registry: property id -> generator of (slice name, run(result, model_ok))."""
import engine
from world import World
import scen_proto

SHIPPED = ("shipped", "custom", "toyint", "toyed")


def std(gen, want=SHIPPED, batch=400):
    def f(rng, tier):
        def run(res, model_ok):
            w = World(rng, want)
            scs = gen(w, tier)
            for i in range(0, max(1, len(scs)), batch):
                engine.execute(w.prelude, scs[i:i + batch], res, prelude_out=w.prelude_out, use_model=model_ok)
        yield (gen.__name__, run)
    return f


REGISTRY = {
    "C01": std(scen_proto.gen_C01),
    "C02": std(scen_proto.gen_C02),
    "C03": std(scen_proto.gen_C03),
}
