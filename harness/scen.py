"""Registry: property id -> generator of (slice name, run(result, model_ok))."""
import engine
from world import World
import scen_proto
import scen_group
import scen_state
import scen_util
import scen_trace

SHIPPED = ("shipped", "custom", "midint", "toyint", "toyed")


def std(gen, want=SHIPPED, batch=400):
    def f(rng, tier):
        def run(res, model_ok):
            w = World(rng, want)
            scs = gen(w, tier)
            for i in range(0, max(1, len(scs)), batch):
                engine.execute(w.prelude, scs[i:i + batch], res, prelude_out=w.prelude_out, use_model=model_ok)
        yield (gen.__name__, run)
    return f


ALL = ("shipped", "custom", "toyint", "toyed", "edgen")

def both(f, g):
    def h(rng, tier):
        for x in f(rng, tier):
            yield x
        for x in g(rng, tier):
            yield x
    return h


def plus_traces(f):
    """the property's own slices, then the replay of the library's own test-suite traces"""
    def g(rng, tier):
        for x in f(rng, tier):
            yield x
        for x in scen_trace.trace_slice(rng, tier):
            yield x
    return g


def with_defaults(gen, prop):
    """the property's own scenarios, then the constructor-defaults slice (parameter sets built with omitted seeds)"""
    def g(w, tier):
        return gen(w, tier) + scen_group.default_seeds_after_custom(w, prop, tier)
    g.__name__ = gen.__name__
    return g


REGISTRY = {
    "C11": std(scen_util.gen_C11, ("shipped", "midint", "toyint"), batch=4),
    "C17": std(scen_util.gen_C17, ()),
    "C07": std(scen_state.gen_C07, ("shipped", "toyint", "toyed"), batch=3000),
    "C08": plus_traces(std(scen_state.gen_C08)),
    "C09": both(std(scen_state.gen_C09), std(scen_state.gen_C09_lifetimes, ("shipped",))),
    "C10": std(scen_state.gen_C10),
    "C16": std(with_defaults(scen_state.gen_C16, "C16"), ("shipped", "toyint")),
    "C05": std(scen_group.gen_C05_all),
    "C12": std(scen_group.gen_C12, ("edgen", "toyed")),
    "C13": std(scen_group.gen_C13_all, ("shipped", "midint", "toyint", "toyed")),
    "C14": std(scen_group.gen_C14, ("shipped", "midint", "toyint", "toyed")),
    "C15": std(scen_group.gen_C15_all, ("shipped", "midint", "toyint", "toyed")),
    "C18": std(scen_group.gen_C18, ("shipped",)),
    "C01": plus_traces(std(scen_proto.gen_C01)),
    "C02": std(scen_proto.gen_C02),
    "C03": plus_traces(std(with_defaults(scen_proto.gen_C03, "C03"))),
    "C04": std(scen_proto.gen_C04),
    "C06": std(scen_proto.gen_C06),
}
