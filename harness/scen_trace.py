"""Trace slice: run the library's OWN test suite with the guarded verification hooks on
(WARNER_PYTHON_SPAKE2_VERIF=1, src/spake2/_verif_hooks.py), and replay every recorded public-API
call -- with the entropy bytes the sessions really drew -- on the Lean model."""
import json, os, subprocess, tempfile
import engine
from engine import Scenario, EXACT

REPO = os.environ.get("VERIF_REPO", "/repo")
SPAKE_ERRORS = {"OnlyCallStartOnce", "OnlyCallFinishOnce", "OffSides", "SerializedTooEarly", "WrongSideSerialized", "WrongGroupError", "ReflectionThwarted"}


def hx(s):
    return s if s else "-"


def record_traces():
    fd, path = tempfile.mkstemp(prefix="spake2_trace_", suffix=".jsonl")
    os.close(fd)
    env = dict(os.environ, WARNER_PYTHON_SPAKE2_VERIF="1", WARNER_PYTHON_SPAKE2_VERIF_TRACE=path, PYTHONPATH=os.path.join(REPO, "src"))
    p = subprocess.run(["/venv/bin/python", "-m", "pytest", "-q", "-p", "no:cacheprovider", "-x", "src/spake2/test"], cwd=REPO, env=env,
                       stdout=subprocess.PIPE, stderr=subprocess.STDOUT, timeout=900)
    recs = [json.loads(l) for l in open(path)] if os.path.exists(path) else []
    os.unlink(path)
    return recs, p.stdout.decode(errors="replace")[-300:]


def build(recs):
    ent = {}
    for r in recs:
        if r.get("entropy"):
            ent.setdefault(r["sid"], []).extend(r["entropy"])
    groups, params = {}, {}
    sc = Scenario("trace/library-test-suite", ("library-test-suite",))
    sc.impl_out = []
    dummy = [10 ** 6]

    def line(l, out):
        sc.op(l, EXACT)
        sc.impl_out.append(out)

    def outcome(r, ok):
        e = r.get("error")
        if e is None:
            return ok
        return "raise:" + e if e in SPAKE_ERRORS else "raise:other/" + e

    def pid_of(pd):
        g = pd["group"]
        gk = json.dumps(g, sort_keys=True)
        if gk not in groups:
            groups[gk] = len(groups)
            if g["kind"] == "int":
                line("group %d int %s %s %s" % (groups[gk], g["p"], g["q"], g["g"]), "ok")
            else:
                line("group %d pub ed" % groups[gk], "ok")
        pk = (gk, pd["M"], pd["N"], pd["S"])
        if pk not in params:
            params[pk] = len(params)
            line("params %d %d %s %s %s" % (params[pk], groups[gk], hx(pd["M"]), hx(pd["N"]), hx(pd["S"])), "ok")
        return params[pk]
    for r in recs:
        op = r["op"]
        if op == "new":
            pid = pid_of(r["params"])
            line("new %d %s %d %s %s %s %s" % (r["sid"], r["side"], pid, hx(r["pw"]), hx(r["idA"]), hx(r["idB"]), hx("".join(ent.get(r["sid"], [])))), "ok")
        elif op == "start":
            line("start %d" % r["sid"], outcome(r, "ok " + hx(r["result"] or "")))
        elif op == "finish":
            if r["args"] and r["args"][0] is not None:
                line("finish %d %s" % (r["sid"], hx(r["args"][0])), outcome(r, "ok " + hx(r["result"] or "")))
        elif op == "serialize":
            line("ser %d" % r["sid"], outcome(r, "ok " + hx(r["result"] or "")))
        elif op == "restore":
            pid = pid_of(r["params"])
            sid = r["sid"]
            if sid is None:
                dummy[0] += 1
                sid = dummy[0]
            line("restore %d %s %d %s" % (sid, r["side"], pid, hx(r["data"])), outcome(r, "ok"))
    return sc


def trace_slice(rng, tier):
    def run(res, model_ok):
        if not os.path.exists(os.path.join(REPO, "src", "spake2", "_verif_hooks.py")):
            # the hook is this framework's own, guarded instrumentation; a tree without it (e.g. a checkout that
            # predates the hook commit) simply has no trace slice -- that says nothing about the property
            res.tags["trace-slice-skipped:no-hook-in-tree"] = 1
            return
        recs, tail = record_traces()
        if not recs:
            raise engine.ModelFailure("no traces recorded from the library's test suite (hooks missing or tests failed to start): %s" % tail)
        sc = build(recs)
        engine.execute([], [sc], res, prelude_out=[], use_model=model_ok)
    yield ("library-test-suite-traces", run)
