"""Independent reference arithmetic used by the harness to *construct inputs* and as a
second oracle in search predicates (affine twisted-Edwards a=-1, modular helpers).
It shares no code with /repo."""
import random


def modinv(a, m):
    return pow(a % m, -1, m)


def sqrt_mod(a, p):
    """a square root of a mod p (p odd prime) or None -- Tonelli-Shanks"""
    a %= p
    if a == 0:
        return 0
    if pow(a, (p - 1) // 2, p) != 1:
        return None
    if p % 4 == 3:
        return pow(a, (p + 1) // 4, p)
    q, s = p - 1, 0
    while q % 2 == 0:
        q //= 2
        s += 1
    z = 2
    while pow(z, (p - 1) // 2, p) != p - 1:
        z += 1
    m, c, t, r = s, pow(z, q, p), pow(a, q, p), pow(a, (q + 1) // 2, p)
    while t != 1:
        i, t2 = 0, t
        while t2 != 1:
            t2 = t2 * t2 % p
            i += 1
        b = pow(c, 1 << (m - i - 1), p)
        m, c, t, r = i, b * b % p, t * b * b % p, r * b % p
    return r


class Edwards:
    """-x^2 + y^2 = 1 + d x^2 y^2 over GF(Q), affine"""

    def __init__(self, Q, d):
        self.Q, self.d = Q, d % Q

    def on_curve(self, P):
        x, y = P
        Q = self.Q
        return (-x * x + y * y - 1 - self.d * x * x * y * y) % Q == 0

    def add(self, P1, P2):
        (x1, y1), (x2, y2) = P1, P2
        Q, d = self.Q, self.d
        t = d * x1 * x2 * y1 * y2 % Q
        x3 = (x1 * y2 + x2 * y1) * modinv(1 + t, Q) % Q
        y3 = (y1 * y2 + x1 * x2) * modinv(1 - t, Q) % Q
        return (x3, y3)

    def neg(self, P):
        return ((-P[0]) % self.Q, P[1])

    def mul(self, P, n):
        R = (0, 1)
        if n < 0:
            P, n = self.neg(P), -n
        while n:
            if n & 1:
                R = self.add(R, P)
            P = self.add(P, P)
            n >>= 1
        return R

    def xs_for_y(self, y):
        Q, d = self.Q, self.d
        den = (d * y * y + 1) % Q
        if den == 0:
            return []
        xx = (y * y - 1) * modinv(den, Q) % Q
        r = sqrt_mod(xx, Q)
        if r is None:
            return []
        return sorted({r, (Q - r) % Q})

    def all_points(self):
        return [(x, y) for y in range(self.Q) for x in self.xs_for_y(y)]

    def encode(self, P):
        x, y = P
        v = y | ((x & 1) << 255)
        return v.to_bytes(32, "little")

    def random_point(self, rng):
        while True:
            y = rng.randrange(self.Q)
            xs = self.xs_for_y(y)
            if xs:
                return (rng.choice(xs), y)


def toy_curve(Q, d, L):
    """(Q, L, d, I, Bx, By) for a toy curve with Q = 5 mod 8, #E = 8L; base point of order L
    whose x is even (as xrecover would return it)"""
    assert Q % 8 == 5
    I = pow(2, (Q - 1) // 4, Q)
    assert I * I % Q == Q - 1
    E = Edwards(Q, d)
    for y in range(2, Q):
        for x in E.xs_for_y(y):
            if x % 2 == 0:
                P = (x, y)
                if P != (0, 1) and E.mul(P, L) == (0, 1):
                    return (Q, L, d, I, x, y)
    raise ValueError("no base point")


TOY_CURVES = [(389, 61, 53), (397, 39, 53), (421, 50, 53), (461, 3, 61)]


def is_probable_prime(n, rounds=64, rng=None):
    rng = rng or random.Random(12345)
    if n < 2:
        return False
    for p in (2, 3, 5, 7, 11, 13, 17, 19, 23, 29, 31, 37):
        if n % p == 0:
            return n == p
    d, s = n - 1, 0
    while d % 2 == 0:
        d //= 2
        s += 1
    for _ in range(rounds):
        a = rng.randrange(2, n - 1)
        x = pow(a, d, n)
        if x in (1, n - 1):
            continue
        for _ in range(s - 1):
            x = x * x % n
            if x == n - 1:
                break
        else:
            return False
    return True
