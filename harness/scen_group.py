"""Scenario generators for the group-level properties C05, C12, C13, C14, C15, C18."""
from world import *
import scen_proto
from scen_proto import refmath_ed, torsion_points

L25519 = 2 ** 252 + 27742317777372353535851937790883648493
Q25519 = 2 ** 255 - 19


def ed_enc(y, sign):
    return (y | (sign << 255)).to_bytes(32, "little")



# ---------------------------------------------------------------------------------------
# several groups of the same encoded width used alternately in one process, every string presented more
# than once: behaviour must not depend on what was decoded before, in this group or in another one
# (memo tables keyed without the group, or filled before validation, show up only here)
# ---------------------------------------------------------------------------------------
def default_seeds_after_custom(w, prop, tier):
    """`_Params(group)` with seed arguments omitted, before and after parameter sets with custom seeds were built over
    the same and over other groups: the constructor's defaults must stay the published seeds (a default held in shared
    mutable state, or remembered from an earlier call, shows only in this order of construction)"""
    out = []
    names = [n for n in ("ed", "1024", "toy2039_1019_4") if n in w.groups]
    if tier != "thorough":
        names = names[:2]
    pid = w.next_pid + 700
    sc = w.scenario("%s/default-seeds-after-custom" % prop, ("constructor-defaults", "order-of-construction"))
    pairs = []
    for n in names:
        gid = w.groups[n]
        first = {}
        for tag, (m, n_, s_) in (("d0", "~~~"), ("M", ("6170702d4d", "~", "~")), ("d1", "~~~"), ("N", ("~", "6170702d4e", "~")),
                                 ("S", ("~", "~", "6170702d53")), ("d2", "~~~"), ("MN", ("4e", "4d", "~")), ("d3", "~~~")):
            o = sc.do("paramsopt %d %d %s %s %s" % (pid, gid, m, n_, s_))
            if o == "ok":
                first[tag] = sc.do("p.mns %d" % pid)
            pid += 1
        pairs.append((n, first))
    sc.meta["pairs"] = pairs

    def pred(io, sc):
        for (n, f) in sc.meta["pairs"]:
            ds = [f[k] for k in ("d0", "d1", "d2", "d3") if k in f]
            if len(set(ds)) > 1:
                return "%s: _Params(group) with default seeds gives different blinding elements after parameter sets with custom seeds were constructed" % n
        return None
    sc.pred = pred
    out.append(sc)
    return out


def mix_toy_int(w, prop, tier):
    gs = [ps for ps in w.gs.values() if ps.toy and ps.kind == "int" and ps.esize == 1]
    if len(gs) < 2:
        return []
    order = gs[::-1] + gs + gs[:2]
    sc = w.scenario("%s/mixed-groups" % prop, ("cross-group", "repeat-presentation", "set:toyint"))
    fails = []
    sc.meta["fails"] = fails
    zeros = {}
    for ps in gs:
        z = w.eid()
        zeros[ps.gid] = payload(sc.do("e.zero %d %d" % (z, ps.gid)))
    for v in list(range(0, 64)) + ([] if tier != "thorough" else list(range(64, 256))):
        b = bytes([v])
        for ps in order:
            p_, q_, g_ = ps.pqg
            e = w.eid()
            o = sc.do("e.dec %d %d %s" % (e, ps.gid, hx(b)))
            member = 0 < v < p_ and pow(v, q_, p_) == 1
            if o.startswith("ok") != member and len(fails) < 3:
                fails.append("group (p,q,g)=%s: bytes_to_element(%s) %s although the value is %sa member of the order-q subgroup (after other groups / earlier calls handled the same string)" % (
                    ps.pqg, hx(b), "accepted" if o.startswith("ok") else "refused", "" if member else "not "))
            if not o.startswith("ok"):
                continue
            if payload(o) != b and len(fails) < 3:
                fails.append("group %s: %s decodes to an element encoding as %s" % (ps.pqg, hx(b), hx(payload(o))))
            # q-fold sum by repeated addition (scalarmult reduces mod q and would hide a non-member)
            acc = e
            ok = True
            for _ in range(q_ - 1):
                n = w.eid()
                oo = sc.do("e.add %d %d %d" % (n, acc, e))
                if not oo.startswith("ok"):
                    ok = False
                    break
                acc = n
            if ok and payload(sc.w.im.run("e.enc %d" % acc)) != zeros[ps.gid] and len(fails) < 3:
                fails.append("group %s: the q-fold sum of the element decoded from %s is not Zero" % (ps.pqg, hx(b)))
            e2 = w.eid()
            o2 = sc.do("e.dec %d %d %s" % (e2, ps.gid, hx(b)))
            if o2.startswith("ok") and sc.do("e.eq %d %d" % (e, e2)) != "ok true" and len(fails) < 3:
                fails.append("group %s: two decodings of %s are not equal elements" % (ps.pqg, hx(b)))
            base = w.eid()
            sc.do("e.base %d %d" % (base, ps.gid))
            s1 = w.eid()
            o3 = sc.do("e.add %d %d %d" % (s1, e, base))
            if not o3.startswith("ok") and len(fails) < 3:
                fails.append("group %s: decoded element + Base raised: %s" % (ps.pqg, o3))
    sc.pred = lambda io, sc: (sc.meta["fails"][0] if sc.meta["fails"] else None)
    return [sc]


def again(w, prop, sources, cap):
    """second (and third) presentation of strings already decoded once in `sources`: the outcome must be the same"""
    sc = w.scenario("%s/second-presentation" % prop, ("repeat-presentation",))
    fails = []
    sc.meta["fails"] = fails
    seen = []
    for src in sources:
        for ln, o in zip(src.lines, src.impl_out):
            ws = ln[0].split() if isinstance(ln, tuple) else ln.split()
            if ws and ws[0] == "e.dec":
                seen.append((int(ws[2]), ws[3] if len(ws) > 3 else "-", o.startswith("ok")))
    if len(seen) > cap:
        step = len(seen) / float(cap)
        seen = [seen[int(i * step)] for i in range(cap)]
    for rnd in (2, 3):
        for gid, hexs, was_ok in seen:
            e = w.eid()
            o = sc.do("e.dec %d %d %s" % (e, gid, hexs))
            if o.startswith("ok") != was_ok and len(fails) < 3:
                fails.append("presentation %d of %s to bytes_to_element was %s, the first one was %s" % (
                    rnd, hexs[:80], "accepted" if o.startswith("ok") else "refused", "accepted" if was_ok else "refused"))
    sc.pred = lambda io, sc: (sc.meta["fails"][0] if sc.meta["fails"] else None)
    return [sc]

# ---------------------------------------------------------------------------------------
# C05 strict decoding
# ---------------------------------------------------------------------------------------
def pred_dec(io, sc):
    """every accepted string must have the element size, re-encode to itself, be a subgroup
    member (checked with the implementation's own arithmetic through e.* ops, comparing
    encodings), and not be the Ed25519 identity"""
    for (i, inp, es, kind, qi, zi) in sc.meta["decs"]:
        o = io[i]
        if not o.startswith("ok"):
            continue
        enc = payload(o)
        if len(inp) != es:
            return "accepted a string of %d bytes (element size %d): %s" % (len(inp), es, hx(inp)[:80])
        if enc != inp:
            return "accepted %s but it re-encodes to %s" % (hx(inp)[:80], hx(enc)[:80])
        if kind == "ed" and inp == b"\x01" + b"\x00" * 31:
            return "accepted the identity"
        if qi is not None and (not io[qi].startswith("ok") or payload(io[qi]) != payload(io[zi])):
            return "accepted an element outside the prime-order subgroup: %s" % hx(inp)[:80]
    return None


def dec_case(sc, w, ps, inp):
    i = len(sc.lines)
    e = w.eid()
    o = sc.do("e.dec %d %d %s" % (e, ps.gid, hx(inp)))
    qi = zi = None
    if o.startswith("ok"):
        t, z = w.eid(), w.eid()
        if ps.kind == "ed":
            # q*P == identity, using the unknown-group path so that no reduction mod q can hide it
            u = w.eid()
            sc.do("e.decu %d %d %s" % (u, ps.gid, hx(inp)), NONE)
            qi = len(sc.lines)
            sc.do("e.smul %d %d %d" % (t, u, ps.q), NONE)
        else:
            # integer groups reduce scalars mod q, so multiply in two steps (q-1)*P + P
            sc.do("e.smul %d %d %d" % (t, e, ps.q - 1), NONE)
            t2 = w.eid()
            qi = len(sc.lines)
            sc.do("e.add %d %d %d" % (t2, t, e), NONE)
        zi = len(sc.lines)
        sc.do("e.zero %d %d" % (z, ps.gid), NONE)
    sc.meta.setdefault("decs", []).append((i, inp, ps.esize, ps.kind, qi, zi))


def gen_C05(w, tier):
    r = w.rng
    out = []
    big = tier == "thorough"
    E = refmath_ed()
    tors = torsion_points()
    # --- Ed25519, constructed classes ---------------------------------------------------
    ps = w.ps["ed"]
    sc = w.scenario("C05/ed/classes", ("set:ed", "constructed"))
    cases = []
    for T in tors:
        cases.append(E.encode(T))
        cases.append(ed_enc(T[1], 1 - (T[0] & 1)))            # wrong sign bit
    for _ in range(6 if not big else 60):
        P = E.mul(E.random_point(r), 8)                          # subgroup point
        cases.append(E.encode(P))
        for T in tors[1:]:
            cases.append(E.encode(E.add(P, T)))                  # order 2L, 4L, 8L
        cases.append(E.encode(P) + b"\x00")                      # over-long
        cases.append(E.encode(P) + E.encode(P))
        cases.append(E.encode(P)[:31])                           # truncated
        y = P[1]
        if y + Q25519 < 2 ** 255:
            cases.append(ed_enc(y + Q25519, P[0] & 1))           # y >= field prime
        cases.append(ed_enc(P[1], 1 - (P[0] & 1)))               # the negative: valid, other point
    for k in range(19):
        cases.append(ed_enc(Q25519 + k, 0)); cases.append(ed_enc(Q25519 + k, 1))
    for y in (0, 1, 2, Q25519 - 1, Q25519 - 2, 2 ** 255 - 1):
        cases.append(ed_enc(y, 0)); cases.append(ed_enc(y, 1))
    for _ in range(10 if not big else 200):                      # off-curve / random y
        cases.append(ed_enc(r.randrange(2 ** 255), r.randrange(2)))
    for n in list(range(0, 36)) + [63, 64, 65]:
        cases.append(bytes(r.randrange(256) for _ in range(n)))
        cases.append(b"\x01" + b"\x00" * (n - 1) if n else b"")
    seen = set()
    for c in cases:
        if c not in seen:
            seen.add(c)
            dec_case(sc, w, ps, c)
    sc.pred = pred_dec
    out.append(sc)
    # --- integer groups, constructed classes ----------------------------------------------
    for name in ("1024", "2048", "3072"):
        ps = w.ps[name]
        sc = w.scenario("C05/%s/classes" % name, ("set:" + name, "constructed"))
        es = ps.esize
        g = payload(w.im.run("e.base %d %d" % (w.eid(), ps.gid)))
        gv = int.from_bytes(g, "big")
        # p itself is not exposed by the line protocol: recover it from the implementation object
        pv = w.im.groups[ps.gid].p
        vals = [0, 1, 2, pv - 1, pv, pv + 1, gv, pow(gv, 5, pv), pv - gv, (gv * gv) % pv, 2 ** (8 * es) - 1]
        vals += [r.randrange(pv) for _ in range(3 if not big else 30)]
        vals += [pow(gv, r.randrange(ps.q), pv) for _ in range(3 if not big else 30)]
        cases = [v.to_bytes(es, "big") for v in vals if v < 2 ** (8 * es)]
        m = pow(gv, 77, pv).to_bytes(es, "big")
        cases += [m[1:], m + b"\x00", b"\x00" + m, m[:-1], b"", m + m, m.lstrip(b"\x00")]
        for c in cases:
            dec_case(sc, w, ps, c)
        sc.pred = pred_dec
        out.append(sc)
    # --- toy prime fields: every 1- and 2-byte string (and other lengths) ---------------------
    for name, ps in w.ps.items():
        if not ps.toy or ps.base or ps.kind != "int":
            continue
        es = ps.esize
        if es > 1 and not big and ps.pqg[0] > 300:
            space = [r.randrange(256 ** es) for _ in range(400)] + list(range(0, 40)) + [ps.pqg[0] - 1, ps.pqg[0], ps.pqg[0] + 1]
        else:
            space = range(256 ** es)
        sc = w.scenario("C05/%s/all-encodings" % name, ("toy-exhaustive", "set:toyint"))
        for v in space:
            dec_case(sc, w, ps, v.to_bytes(es, "big"))
        for n in (0, es - 1, es + 1, es + 2):
            if n >= 0:
                dec_case(sc, w, ps, b"\x01" * n)
                dec_case(sc, w, ps, b"\x00" * n)
        sc.pred = pred_dec
        out.append(sc)
    # --- toy Edwards curves: every y and sign bit, plus other lengths ---------------------------
    for name, ps in w.ps.items():
        if not ps.toy or ps.kind != "ed":
            continue
        Qt = ps.curve[0]
        sc = w.scenario("C05/%s/all-encodings" % name, ("toy-exhaustive", "set:toyed"))
        ys = list(range(0, 2 * Qt + 40)) if big else list(range(0, Qt + 30))
        for y in ys:
            for sgn in (0, 1):
                dec_case(sc, w, ps, ed_enc(y, sgn))
        for n in (0, 1, 31, 33, 64):
            dec_case(sc, w, ps, bytes([5]) + b"\x00" * (n - 1) if n else b"")
        sc.pred = pred_dec
        out.append(sc)
    # --- finish() never derives a key from a refused element ------------------------------------
    ps = w.ps["ed"]
    sc = w.scenario("C05/ed/finish", ("finish",))
    rec = []
    for c in list(seen)[:40 if not big else 400]:
        s_ = sc.new("A", ps, b"pw", b"", b"", w.entropy_for(ps, 9))
        sc.start(s_)
        e = w.eid()
        d = sc.do("g.dec %d %s" % (ps.gid, hx(c)))
        o = sc.finish(s_, b"B" + c)
        rec.append((d, o))
    sc.meta["rec"] = rec

    def pred_f(io, sc):
        for d, o in sc.meta["rec"]:
            if o.startswith("ok") and not d.startswith("ok"):
                return "finish() returned a key for an element bytes_to_element refuses"
        return None
    sc.pred = pred_f
    out.append(sc)
    return out


# ---------------------------------------------------------------------------------------
# C12 the Edwards group law (raw extended-coordinate arithmetic)
# ---------------------------------------------------------------------------------------
def gen_C12(w, tier):
    r = w.rng
    out = []
    big = tier == "thorough"
    E = refmath_ed()
    Q = Q25519
    tors = torsion_points()
    gid = w.groups["edgen"]

    def ext(P, z=None):
        z = z if z is not None else r.randrange(1, Q)
        return (P[0] * z % Q, P[1] * z % Q, z, P[0] * P[1] * z % Q)

    def aff(out_):
        if not out_.startswith("ok"):
            return None, False
        X, Y, Z, T = (int(t) for t in out_.split()[1:5])
        if Z % Q == 0:
            return None, False        # not a representation of any point
        zi = refmath.modinv(Z, Q)
        return (X * zi % Q, Y * zi % Q), (X * Y - T * Z) % Q == 0 and Z % Q != 0

    pairs = []
    B = E.mul(E.random_point(r), 8)
    pts = [E.mul(B, r.randrange(1, L25519)) for _ in range(6 if not big else 60)]
    for P in pts:
        pairs += [(P, P), (P, E.neg(P)), (P, (0, 1)), ((0, 1), P), (P, E.mul(P, 2))]
        for T in tors[1:4]:
            pairs += [(P, T), (E.add(P, T), P), (T, T)]
    for T1 in tors:
        for T2 in tors:
            pairs.append((T1, T2))
    for _ in range(20 if not big else 400):
        pairs.append((E.random_point(r), E.random_point(r)))
    sc = w.scenario("C12/add-dbl", ("exceptional+random",))
    rec = []
    for (P1, P2) in pairs:
        for zs in ((1, 1), (None, None)):
            p1, p2 = ext(P1, zs[0]), ext(P2, zs[1])
            i = len(sc.lines)
            sc.do("ed.add %d %s %s" % (gid, " ".join(map(str, p1)), " ".join(map(str, p2))))
            rec.append(("add", i, E.add(P1, P2)))
            i = len(sc.lines)
            sc.do("ed.dbl %d %s" % (gid, " ".join(map(str, p1))))
            rec.append(("dbl", i, E.add(P1, P1)))
            D = E.add(P1, E.neg(P2))
            i = len(sc.lines)
            sc.do("ed.addnu %d %s %s" % (gid, " ".join(map(str, p1)), " ".join(map(str, p2))))
            if D[0] != 0 and D[1] != 0:
                rec.append(("addnu", i, E.add(P1, P2)))
    sc.meta["rec"] = rec

    def pred(io, sc):
        for (what, i, want) in sc.meta["rec"]:
            got, ok = aff(io[i])
            if not ok:
                return "%s returned an invalid extended representation (Z=0 or T*Z != X*Y)" % what
            if got != want:
                return "%s does not compute the Edwards sum" % what
        return None
    sc.pred = pred
    out.append(sc)
    # ladders
    sc = w.scenario("C12/ladders", ("ladders",))
    rec = []
    ns = [0, 1, 2, 3, 4, 7, 8, 2 ** 16, L25519 - 1, L25519 - 2, (L25519 - 1) // 2, (L25519 + 1) // 2] + [r.randrange(L25519) for _ in range(4 if not big else 40)]
    for P in pts[:3 if not big else 12]:
        for n in ns:
            p1 = ext(P)
            i = len(sc.lines)
            sc.do("ed.smulslow %d %s %d" % (gid, " ".join(map(str, p1)), n))
            rec.append(("smulslow", i, E.mul(P, n)))
            if 0 < n < L25519:
                i = len(sc.lines)
                sc.do("ed.smul %d %s %d" % (gid, " ".join(map(str, p1)), n))
                rec.append(("smul", i, E.mul(P, n)))
    for T in tors:
        for n in (0, 1, 2, 4, 8, L25519, 8 * L25519 + 3):
            i = len(sc.lines)
            sc.do("ed.smulslow %d %s %d" % (gid, " ".join(map(str, ext(T))), n))
            rec.append(("smulslow", i, E.mul(T, n)))
    sc.meta["rec"] = rec
    sc.pred = pred
    out.append(sc)
    # the ladders as the element API drives them: the dedicated addition must only ever see a reduced scalar
    # (scalars at and above the group order, including those with a bit-prefix L+2 on which an unreduced fast
    # ladder adds P to P)
    sc = w.scenario("C12/api-scalarmult", ("api-scalarmult",))
    rec = []
    Lq = L25519
    be = w.eid()
    sc.do("e.base %d %d" % (be, gid))
    Bpt = None
    ob = sc.impl_out[-1]
    if ob.startswith("ok"):
        enc = payload(ob)
        v = int.from_bytes(enc, "little")
        yb = v & ((1 << 255) - 1)
        xs = E.xs_for_y(yb)
        Bpt = [(x, yb) for x in xs if (x & 1) == (v >> 255)][0]
    ns = [Lq, Lq + 1, Lq + 2, Lq + 3, 2 * (Lq + 2), 2 * (Lq + 2) + 1, 4 * (Lq + 2) + 3, 3 * Lq + 2, 2 * Lq, 2 * Lq - 1, 8 * Lq + 5, -1, -2, -(Lq + 2), 2 ** 255, 2 ** 256 + 7]
    ns += [r.randrange(Lq, 4 * Lq) for _ in range(6 if not big else 60)]
    for n_ in ns:
        e_ = w.eid()
        i = len(sc.lines)
        sc.do("e.smul %d %d %d" % (e_, be, n_))
        rec.append((i, n_))
    sc.meta.update(rec=rec, B=Bpt)

    def pred_api(io, sc):
        Bp = sc.meta["B"]
        if Bp is None:
            return None
        for (i, n_) in sc.meta["rec"]:
            want = E.mul(Bp, n_ % Lq)
            o = io[i]
            if not o.startswith("ok") or payload(o) != E.encode(want):
                return "Base.scalarmult(%d) is not (n mod L)*Base: %s" % (n_, o[:80])
        return None
    sc.pred = pred_api
    out.append(sc)
    for name, ps in w.gs.items():
        if ps.kind != "ed" or not ps.toy:
            continue
        Lt = ps.q
        sc = w.scenario("C12/api-scalarmult/%s" % name, ("api-scalarmult", "toy-exhaustive"))
        b_ = w.eid()
        sc.do("e.base %d %d" % (b_, ps.gid))
        idx = {}
        for n_ in range(-Lt - 2, 4 * Lt + 6):
            e_ = w.eid()
            idx[n_] = len(sc.lines)
            sc.do("e.smul %d %d %d" % (e_, b_, n_))
        sc.meta.update(idx=idx, L=Lt)

        def pred_toy(io, sc):
            idx, Lt = sc.meta["idx"], sc.meta["L"]
            for n_, i in idx.items():
                j = idx[n_ % Lt]
                if not io[i].startswith("ok") or payload(io[i]) != payload(io[j]):
                    return "Base.scalarmult(%d) differs from Base.scalarmult(%d) on the toy curve: %s vs %s" % (n_, n_ % Lt, io[i][:70], io[j][:70])
            return None
        sc.pred = pred_toy
        out.append(sc)
    # addition through the element API with operands that are the same point reached along different routes
    # (different projective representatives): i*Base by the ladder, by repeated addition, and re-decoded
    def api_add(ps, name, mults, tags):
        sc = w.scenario("C12/api-add/%s" % name, tags)
        fails = []
        sc.meta["fails"] = fails
        b_ = w.eid()
        sc.do("e.base %d %d" % (b_, ps.gid))
        z_ = w.eid()
        sc.do("e.zero %d %d" % (z_, ps.gid))
        reps = {}
        chain = {0: z_, 1: b_}
        top = max([m for m in mults if m < 40] + [1])
        for k in range(2, top + 1):
            n = w.eid()
            sc.do("e.add %d %d %d" % (n, chain[k - 1], b_))
            chain[k] = n
        for m in mults:
            lad = w.eid()
            o = sc.do("e.smul %d %d %d" % (lad, b_, m))
            rs = [lad]
            if m in chain:
                rs.append(chain[m])
            if o.startswith("ok") and m % ps.q != 0:
                d = w.eid()
                if sc.do("e.dec %d %d %s" % (d, ps.gid, hx(payload(o)))).startswith("ok"):
                    rs.append(d)
            reps[m] = rs
        for i_ in mults:
            for j_ in mults:
                want = w.eid()
                ow = sc.do("e.smul %d %d %d" % (want, b_, (i_ + j_) % ps.q))
                for ra in reps[i_]:
                    for rb in reps[j_]:
                        t = w.eid()
                        o = sc.do("e.add %d %d %d" % (t, ra, rb))
                        if (not o.startswith("ok") or payload(o) != payload(ow)) and len(fails) < 3:
                            fails.append("(%d*Base) + (%d*Base) through the element API is not %d*Base for some representatives of the operands: %s" % (i_, j_, (i_ + j_) % ps.q, o[:80]))
        sc.pred = lambda io, sc: (sc.meta["fails"][0] if sc.meta["fails"] else None)
        out.append(sc)
    for name, ps in w.gs.items():
        if ps.kind != "ed":
            continue
        if ps.toy:
            api_add(ps, name, list(range(0, min(ps.q, 14 if not big else 60))) + [ps.q - 1, ps.q - 2], ("api-add", "toy-exhaustive"))
    if "edgen" in w.ps:
        pe = w.ps["edgen"]
        api_add(pe, "ed", [0, 1, 2, 3, 4, 6, 8, Lq - 1, Lq - 2, Lq - 4, r.randrange(Lq), (Lq + 1) // 2], ("api-add",))
    # field helpers
    sc = w.scenario("C12/field", ("field",))
    sc.do("ed.consts %d" % gid)
    for _ in range(30 if not big else 300):
        y = r.randrange(Q)
        sc.do("ed.xrec %d %d" % (gid, y))
        sc.do("ed.inv %d %d" % (gid, y))
        P = E.random_point(r)
        sc.do("ed.onc %d %d %d" % (gid, P[0], P[1]))
        sc.do("ed.onc %d %d %d" % (gid, P[0], (P[1] + 1) % Q))
        p1 = ext(P)
        sc.do("ed.aff %d %s" % (gid, " ".join(map(str, p1))))
        sc.do("ed.isz %d %s" % (gid, " ".join(map(str, p1))))
    z = r.randrange(1, Q)
    sc.do("ed.isz %d 0 %d %d 0" % (gid, z, z))
    sc.do("ed.isz %d 0 %d %d 0" % (gid, z, z + Q))
    sc.do("ed.isz %d 0 0 0 0" % gid)
    out.append(sc)
    return out


# ---------------------------------------------------------------------------------------
# C13 group axioms through the element API
# ---------------------------------------------------------------------------------------
class Reg:
    """element registers of one scenario"""
    def __init__(self, sc, w, ps):
        self.sc, self.w, self.ps = sc, w, ps

    def _new(self, line_fmt, *a):
        e = self.w.eid()
        o = self.sc.do(line_fmt % ((e,) + a))
        return e, o

    def base(self): return self._new("e.base %d %d", self.ps.gid)
    def zero(self): return self._new("e.zero %d %d", self.ps.gid)
    def dec(self, b): return self._new("e.dec %d %d %s", self.ps.gid, hx(b))
    def arb(self, s): return self._new("e.arb %d %d %s", self.ps.gid, hx(s))
    def add(self, a, b): return self._new("e.add %d %d %d", a, b)
    def sub(self, a, b): return self._new("e.sub %d %d %d", a, b)
    def smul(self, a, n): return self._new("e.smul %d %d %d", a, n)
    def neg(self, a): return self._new("e.neg %d %d", a)
    def eq(self, a, b): return self.sc.do("e.eq %d %d" % (a, b))


def gen_C13(w, tier):
    r = w.rng
    out = []
    big = tier == "thorough"

    def laws(ps, name, elems_f, scalars, n_pairs, n_triples, tags):
        sc = w.scenario("C13/%s" % name, tags)
        R = Reg(sc, w, ps)
        fails = []
        sc.meta["fails"] = fails

        def must(cond, what):
            if not cond and len(fails) < 3:
                fails.append(what)
        els = elems_f(R)
        zero, _ = R.zero()
        has_neg = ps.kind == "ed"
        if has_neg:
            nz, o = R.neg(zero)
            must(o.startswith("ok") and R.eq(nz, zero) == "ok true", "-Zero != Zero: %s" % o)
            if els:
                d0, o = R.sub(zero, els[-1])
                back, o2 = R.add(d0, els[-1])
                must(o.startswith("ok") and o2.startswith("ok") and R.eq(back, zero) == "ok true", "(Zero - a) + a != Zero: %s %s" % (o, o2))
        else:
            _, o = R.neg(zero)          # integer-group elements offer no negate(): must raise, never return garbage
            must(not o.startswith("ok"), "integer-group element offers negate()")
        pairs = [(a, b) for a in els for b in els]
        if len(pairs) > n_pairs:
            pairs = r.sample(pairs, n_pairs)
        for (a, b) in pairs:
            ab, o1 = R.add(a, b)
            ba, o2 = R.add(b, a)
            must(o1.startswith("ok") and o2.startswith("ok"), "add raised: %s / %s" % (o1, o2))
            if not (o1.startswith("ok") and o2.startswith("ok")):
                continue
            must(o1 == o2, "a+b != b+a : %s vs %s" % (o1, o2))
            must(R.eq(ab, ba) == "ok true", "== is not value equality on a+b, b+a")
            must(o1.split()[2] in ("elem", "zero", "int"), "a+b is not a full element: %s" % o1)
            if has_neg:
                d, o3 = R.sub(a, b)
                back, o4 = R.add(d, b)
                must(o4.startswith("ok") and R.eq(back, a) == "ok true", "(a-b)+b != a: %s" % o4)
                if o3.startswith("ok"):
                    must(o3.split()[2] in ("elem", "zero"), "a-b is not a full element: %s" % o3)
                    _, o5 = R.smul(d, -2)
                    must(o5.startswith("ok"), "(a-b).scalarmult(-2) raised: %s" % o5)
        if has_neg:
            for a in els[:6]:
                amz, o = R.sub(a, zero)
                must(o.startswith("ok") and o.split()[2] in ("elem", "zero") and R.eq(amz, a) == "ok true", "a - Zero is not the full element a: %s" % o)
                if o.startswith("ok"):
                    _, o2 = R.smul(amz, -1)
                    must(o2.startswith("ok"), "(a - Zero).scalarmult(-1) raised: %s" % o2)
        for a in els:
            az, o = R.add(a, zero)
            za, o2 = R.add(zero, a)
            must(o.startswith("ok") and R.eq(az, a) == "ok true", "a+Zero != a: %s" % o)
            must(o2.startswith("ok") and R.eq(za, a) == "ok true", "Zero+a != a: %s" % o2)
            must(o.startswith("ok") and o.split()[2] in ("elem", "zero", "int"), "a+Zero is not a full element: %s" % o)
            must(R.eq(a, a) == "ok true", "a != a")
            if has_neg:
                na, o = R.neg(a)
                s, o2 = R.add(a, na)
                must(o.startswith("ok") and o2.startswith("ok") and R.eq(s, zero) == "ok true", "a + (-a) != Zero: %s %s" % (o, o2))
                m1, o3 = R.smul(a, -1)
                must(o.startswith("ok") and o3.startswith("ok") and payload(o) == payload(o3), "negate != scalarmult(-1)")
                if o.startswith("ok"):
                    # the negation is again a full element: it takes negative scalars, and (-a)*(-2) == a*2
                    must(o.split()[2] in ("elem", "zero"), "-a is not a full element: %s" % o)
                    t1, o5 = R.smul(na, -2)
                    t2, o6 = R.smul(a, 2)
                    must(o5.startswith("ok") and o6.startswith("ok") and payload(o5) == payload(o6), "(-a).scalarmult(-2) != a.scalarmult(2): %s / %s" % (o5, o6))
            # n-fold addition
            acc, acc_o = zero, None
            for n in range(0, 5):
                m, o = R.smul(a, n)
                must(o.startswith("ok") and R.eq(m, acc) == "ok true", "scalarmult(%d) != %d-fold addition: %s" % (n, n, o))
                acc, acc_o = R.add(acc, a)
            for n in scalars:
                m, o = R.smul(a, n)
                m2, o2 = R.smul(a, n % ps.q)
                must(o.startswith("ok") and o2.startswith("ok") and payload(o) == payload(o2), "scalarmult(%d) != scalarmult(%d mod q): %s / %s" % (n, n, o, o2))
                if o.startswith("ok"):
                    must(o.split()[2] in ("elem", "zero", "int"), "n*a is not a full element: %s" % o)
                    # results are again usable: multiply by a negative scalar, encode/decode
                    back, o3 = R.smul(m, -1)
                    must(o3.startswith("ok"), "result of scalarmult refuses a negative scalar: %s" % o3)
                    enc = payload(o)
                    d, o4 = R.dec(enc)
                    ident = o.split()[2] == "zero" or (ps.kind == "int" and int.from_bytes(enc, "big") == 1)
                    if ps.kind == "ed" and ident:
                        must(not o4.startswith("ok"), "the Ed25519 identity was decoded")
                    else:
                        must(o4.startswith("ok") and payload(o4) == enc, "n*a does not decode back: %s" % o4)
            # distributivity over scalar addition / multiplication
            for _ in range(2):
                n1, n2 = r.choice(scalars), r.choice(scalars)
                l, o1 = R.smul(a, n1 + n2)
                x1, _ = R.smul(a, n1)
                x2, _ = R.smul(a, n2)
                s, o2 = R.add(x1, x2)
                must(o1.startswith("ok") and o2.startswith("ok") and R.eq(l, s) == "ok true", "(n1+n2)a != n1 a + n2 a")
                l2, o3 = R.smul(a, n1 * n2)
                y, o4 = R.smul(x1, n2)
                must(o3.startswith("ok") and o4.startswith("ok") and R.eq(l2, y) == "ok true", "(n1 n2)a != n2 (n1 a)")
        triples = [(a, b, c) for a in els for b in els for c in els]
        if len(triples) > n_triples:
            triples = r.sample(triples, n_triples)
        for (a, b, c) in triples:
            ab, _ = R.add(a, b)
            l, o1 = R.add(ab, c)
            bc, _ = R.add(b, c)
            rr, o2 = R.add(a, bc)
            must(o1.startswith("ok") and o1 == o2, "(a+b)+c != a+(b+c): %s vs %s" % (o1, o2))
            n = r.choice(scalars)
            l, o3 = R.smul(ab, n)
            na, _ = R.smul(a, n)
            nb, _ = R.smul(b, n)
            s, o4 = R.add(na, nb)
            must(o3.startswith("ok") and o4.startswith("ok") and payload(o3) == payload(o4), "n(a+b) != na+nb")
        # != and == between different elements
        if len(els) >= 2:
            a, b = els[0], els[1]
            enc_a, enc_b = payload(sc.w.im.run("e.enc %d" % a)), payload(sc.w.im.run("e.enc %d" % b))
            must((R.eq(a, b) == "ok true") == (enc_a == enc_b), "== disagrees with equality of encodings")
        sc.pred = lambda io, sc: (sc.meta["fails"][0] if sc.meta["fails"] else None)
        out.append(sc)
    # toy groups: all elements
    for name, ps in w.gs.items():
        if not ps.toy:
            continue
        if ps.q > 60 and not big:
            continue
        q = ps.q

        def all_elems(R, q=q):
            b, _ = R.base()
            els = []
            if q <= 30 or (big and q <= 60):
                ks = range(q)
            else:
                ks = sorted(set([0, 1, 2, q - 1] + r.sample(range(q), 8 if not big else 30)))
            for k in ks:
                e, _ = R.smul(b, k)
                els.append(e)
            return els
        scal = list(range(-q, 2 * q + 1)) if (q <= 30 or (big and q <= 60)) else [-q, -1, 0, 1, q - 1, q, q + 1, 2 * q] + [r.randrange(-q, 2 * q) for _ in range(60 if big else 0)]
        if len(scal) > 40 and not big:
            scal = r.sample(scal, 40) + [-q, -1, 0, q, 2 * q]
        laws(ps, name, all_elems, scal, 200 if not big else 1200, 60 if not big else 600, ("toy-exhaustive", "set:toy" + ps.kind))
    # `==` must be value equality, not equality of hashes: distinct members congruent modulo CPython's hash modulus
    import sys as _sys
    M = _sys.hash_info.modulus
    sp = None
    cand = (1 << 67) + 3
    while sp is None:
        if cand % 4 == 3 and refmath.is_probable_prime((cand - 1) // 2, 8) and refmath.is_probable_prime(cand, 8):
            sp = cand
        cand += 4
    gid = w.next_gid + 200
    sc = w.scenario("C13/hash-colliding-elements", ("hash-collision",))
    fails = []
    if sc.do("group %d int %d %d %d" % (gid, sp, (sp - 1) // 2, 4)) == "ok":
        es = sp.bit_length() // 8 + 1
        found = 0
        for _ in range(40):
            a = pow(r.randrange(2, sp), 2, sp)
            for k_ in range(1, 70):
                b = a + k_ * M
                if b < sp and pow(b, (sp - 1) // 2, sp) == 1:
                    ea, eb = w.eid(), w.eid()
                    oa = sc.do("e.dec %d %d %s" % (ea, gid, hx(a.to_bytes((sp.bit_length() + 7) // 8, "big"))))
                    ob = sc.do("e.dec %d %d %s" % (eb, gid, hx(b.to_bytes((sp.bit_length() + 7) // 8, "big"))))
                    if oa.startswith("ok") and ob.startswith("ok") and sc.do("e.eq %d %d" % (ea, eb)) != "ok false":
                        fails.append("distinct elements %d and %d compare equal" % (a, b))
                    found += 1
                    break
            if found >= 6:
                break
    sc.meta["fails"] = fails
    sc.pred = lambda io, sc: (sc.meta["fails"][0] if sc.meta["fails"] else None)
    out.append(sc)
    # shipped groups: edge operands
    for name in ("ed", "1024", "2048", "3072"):
        ps = w.gs[name]
        q = ps.q
        if ps.kind == "int" and not big and name != "1024":
            continue

        def some(R, ps=ps):
            b, _ = R.base()
            z, _ = R.zero()
            m, _ = R.arb(b"M")
            k, _ = R.smul(b, r.randrange(ps.q))
            d, _ = R.dec(payload(sc_enc(R, m)))
            nb, _ = R.smul(b, -1)
            return [b, z, m, k, d, nb]

        def sc_enc(R, e):
            return R.sc.do("e.enc %d" % e)
        scal = [0, 1, -1, q - 1, q, q + 1, (q - 1) // 2, (q + 1) // 2, 2, 2 ** 16, 2 ** 200, -q, 2 * q, -(2 ** 70)]
        laws(ps, name, some, scal, 36, 10 if not big else 60, ("shipped-edge", "set:" + name))
    return out


# ---------------------------------------------------------------------------------------
# C14 derivations
# ---------------------------------------------------------------------------------------
def gen_C14(w, tier):
    r = w.rng
    out = []
    big = tier == "thorough"
    lens = [0, 1, 2, 31, 32, 33, 54, 55, 56, 57, 63, 64, 65, 119, 120, 128, 200]
    for name, ps in w.ps.items():
        if ps.base:
            continue
        sc = w.scenario("C14/%s" % name, ("set:" + ("toy" if ps.toy else name),))
        rec = []
        ls = lens if (ps.kind == "ed" or ps.toy or big) else [0, 1, 33, 64, 65]
        inputs = [bytes(r.randrange(256) for _ in range(n)) for n in ls] + [b"M", b"N", b"symmetric", b"", b"\x00"]
        if ps.toy:
            inputs += [b"s%d" % i for i in range(12 if not big else 200)]
        if big:
            inputs += [bytes(r.randrange(256) for _ in range(r.randrange(0, 300))) for _ in range(60)]
        z = w.eid()
        sc.do("e.zero %d %d" % (z, ps.gid))
        for inp in inputs:
            i = len(sc.lines)
            sc.do("g.p2s %d %s" % (ps.gid, hx(inp)))
            e = w.eid()
            j = len(sc.lines)
            o = sc.do("e.arb %d %d %s" % (e, ps.gid, hx(inp)))
            k = k2 = None
            if o.startswith("ok"):
                k = len(sc.lines)
                sc.do("e.eq %d %d" % (e, z))
                d = w.eid()
                k2 = len(sc.lines)
                sc.do("g.dec %d %s" % (ps.gid, hx(payload(o))))
            rec.append((inp, i, j, k, k2))
        sc.meta.update(rec=rec, q=ps.q, toy=ps.toy, name=name, kind=ps.kind)

        def pred(io, sc):
            m = sc.meta
            for (inp, i, j, k, k2) in m["rec"]:
                v = int(io[i].split()[1])
                if not (0 <= v < m["q"]):
                    return "password_to_scalar out of range"
                bad = None
                if not io[j].startswith("ok"):
                    bad = "arbitrary_element(%r) raised %s" % (inp, io[j])
                elif io[k] != "ok false":
                    bad = "arbitrary_element(%r) is the identity" % inp
                elif not io[k2].startswith("ok"):
                    bad = "arbitrary_element(%r) is not accepted by bytes_to_element (not a subgroup member?)" % inp
                if bad:
                    if m["toy"] and m["kind"] == "int":
                        return ("known", "K3", bad)
                    return bad
            return None
        sc.pred = pred
        out.append(sc)
    return out


# ---------------------------------------------------------------------------------------
# C15 encodings
# ---------------------------------------------------------------------------------------
def gen_C15(w, tier):
    r = w.rng
    out = []
    big = tier == "thorough"
    top = 2 ** 12 if big else 2 ** 8
    sc = w.scenario("C15/n2b-exhaustive", ("exhaustive maxval<%d" % top,))
    rec = []
    for maxval in range(0, top):
        if big and maxval > 600 and maxval % 7:
            ns = sorted(set([0, 1, maxval // 2, maxval - 1, maxval, maxval + 1, 255, 256, 257] + [r.randrange(maxval + 2) for _ in range(4)]))
        else:
            ns = range(0, maxval + 2)
        for n_ in ns:
            i = len(sc.lines)
            o = sc.do("n2b %d %d" % (n_, maxval))
            j = None
            if o.startswith("ok"):
                j = len(sc.lines)
                sc.do("b2n %s" % hx(payload(o)))
            rec.append((n_, maxval, i, j))
    bounds = [2 ** (8 * k) - 1 for k in (1, 2, 3, 8, 20, 32, 128)] + [2 ** (8 * k) for k in (1, 2, 3, 8, 20, 32, 128)] + [2 ** 255 - 19, L25519]
    for maxval in bounds + [r.randrange(2 ** r.randrange(1, 3100)) for _ in range(20 if not big else 300)]:
        for n_ in (0, 1, maxval - 1, maxval, maxval + 1, r.randrange(maxval + 1)):
            if n_ < 0:
                continue
            i = len(sc.lines)
            o = sc.do("n2b %d %d" % (n_, maxval))
            j = None
            if o.startswith("ok"):
                j = len(sc.lines)
                sc.do("b2n %s" % hx(payload(o)))
            rec.append((n_, maxval, i, j))
        sc.do("sizebits %d" % maxval)
        sc.do("sizebytes %d" % maxval)
    sc.do("n2b -1 10")
    sc.do("b2n -")
    sc.meta["rec"] = rec

    def pred(io, sc):
        for (n_, maxval, i, j) in sc.meta["rec"]:
            o = io[i]
            if n_ > maxval:
                if o.startswith("ok"):
                    return "number_to_bytes(%d, %d) did not raise" % (n_, maxval)
                continue
            b = payload(o)
            if b is None:
                return "number_to_bytes(%d, %d) raised" % (n_, maxval)
            want = (max(maxval.bit_length(), 1) + 7) // 8
            if len(b) != want or int.from_bytes(b, "big") != n_:
                return "number_to_bytes(%d, %d) = %s is not the %d-byte big-endian encoding" % (n_, maxval, hx(b), want)
            if io[j] != "ok %d" % n_:
                return "bytes_to_number does not invert number_to_bytes(%d, %d)" % (n_, maxval)
        return None
    sc.pred = pred
    out.append(sc)
    # scalar and element codecs per group
    for name, ps in w.ps.items():
        if ps.base:
            continue
        sc = w.scenario("C15/%s/codecs" % name, ("set:" + ("toy" if ps.toy else name),))
        q = ps.q
        if ps.toy and (q <= 60 or big):
            xs = list(range(q))
        else:
            xs = sorted(x for x in set([0, 1, 2, 255, 256, q - 1, q - 2, (q - 1) // 2] + [r.randrange(q) for _ in range(6 if not big else 60)]) if 0 <= x < q)
        rec = []
        be = w.eid()
        sc.do("e.base %d %d" % (be, ps.gid))
        encs = {}
        for x in xs:
            i = len(sc.lines)
            o = sc.do("g.senc %d %d" % (ps.gid, x))
            j = len(sc.lines)
            sc.do("g.sdec %d %s" % (ps.gid, hx(payload(o) or b"")))
            e = w.eid()
            k = len(sc.lines)
            o2 = sc.do("e.smul %d %d %d" % (e, be, x))
            enc = payload(o2)
            l = len(sc.lines)
            sc.do("g.dec %d %s" % (ps.gid, hx(enc or b"")))
            rec.append((x, i, j, k, l))
        if ps.kind == "ed":
            negs = []
            srcs = [be]
            d_ = w.eid()
            if sc.do("e.dec %d %d %s" % (d_, ps.gid, hx(payload(sc.impl_out[0])))).startswith("ok"):
                srcs.append(d_)
            k_ = w.eid()
            sc.do("e.smul %d %d %d" % (k_, be, 7))
            srcs.append(k_)
            for src in srcs:
                n_ = w.eid()
                o_n = sc.do("e.neg %d %d" % (n_, src))
                o_s = sc.do("e.enc %d" % src)
                o_d = sc.do("g.dec %d %s" % (ps.gid, hx(payload(o_n) or b"")))
                negs.append((o_s, o_n, o_d))
            sc.meta["negs"] = negs
        # to_bytes/bytes_to_element are mutually inverse: no other string decodes
        extra = []
        genc = payload(sc.impl_out[0])
        for alt in (genc + b"\x00", genc + genc, genc[:-1], b"\x00" + genc):
            extra.append((alt, sc.do("g.dec %d %s" % (ps.gid, hx(alt)))))
        if ps.kind == "ed" and not ps.toy:
            for alt in (b"\x01" + b"\x00" * 30 + b"\x80", ((2 ** 255 - 19) + 1).to_bytes(32, "little")):
                extra.append((alt, sc.do("g.dec %d %s" % (ps.gid, hx(alt)))))
        sc.meta["extra"] = extra
        # bad scalar strings
        sc.do("g.sdec %d %s" % (ps.gid, hx(b"\x00" * (ps.ssize - 1))))
        sc.do("g.sdec %d %s" % (ps.gid, hx(b"\x00" * (ps.ssize + 1))))
        sc.do("g.sdec %d -" % ps.gid)
        if ps.kind == "int":
            sc.do("g.sdec %d %s" % (ps.gid, hx(q.to_bytes(ps.ssize, "big"))))
            sc.do("g.senc %d %d" % (ps.gid, q + 1))
        sc.meta.update(rec=rec, ps=(ps.kind, ps.ssize, ps.esize, ps.q))

        def pred2(io, sc):
            kind, ssize, esize, q = sc.meta["ps"]
            seen = {}
            for (o_s, o_n, o_d) in sc.meta.get("negs", []):
                if not o_n.startswith("ok") or payload(o_n) == payload(o_s):
                    return "distinct elements P and -P share an encoding (or negate failed): %s / %s" % (o_s[:60], o_n[:60])
                if not o_d.startswith("ok") or payload(o_d) != payload(o_n):
                    return "the encoding of -P does not decode back to itself"
            for (alt, o) in sc.meta.get("extra", []):
                if o.startswith("ok") and (len(alt) != esize or payload(o) != alt):
                    return "bytes_to_element accepted %s, which is not the encoding of the element it returns" % hx(alt)[:70]
            for (x, i, j, k, l) in sc.meta["rec"]:
                b = payload(io[i])
                if b is None or len(b) != ssize:
                    return "scalar_to_bytes(%d) is not %d bytes" % (x, ssize)
                if int.from_bytes(b, "little" if kind == "ed" else "big") != x:
                    return "scalar_to_bytes(%d) has the wrong value/endianness" % x
                if io[j] != "ok %d" % x:
                    return "bytes_to_scalar does not invert scalar_to_bytes(%d)" % x
                enc = payload(io[k])
                if enc is None or len(enc) != esize:
                    return "element encoding is not %d bytes" % esize
                if enc in seen and seen[enc] != x:
                    return "distinct elements %d*G and %d*G share an encoding" % (x, seen[enc])
                seen[enc] = x
                ident = io[k].split()[2] == "zero"
                if kind == "ed" and ident:
                    if io[l].startswith("ok"):
                        return "identity decoded on Ed25519"
                elif not io[l].startswith("ok") or payload(io[l]) != enc:
                    return "bytes_to_element does not invert to_bytes for %d*G: %s" % (x, io[l])
            return None
        sc.pred = pred2
        out.append(sc)
    return out


# ---------------------------------------------------------------------------------------
# C18 shipped parameter sets
# ---------------------------------------------------------------------------------------
def gen_C18(w, tier):
    out = []
    sc = w.scenario("C18/constants", ("constants",))
    rec = {}
    for name in ("ed", "1024", "2048", "3072"):
        ps = w.ps[name]
        sc.do("g.sizes %d" % ps.gid)
        b, z = w.eid(), w.eid()
        ob = sc.do("e.base %d %d" % (b, ps.gid))
        oz = sc.do("e.zero %d %d" % (z, ps.gid))
        els = {"G": ob}
        mns = sc.do("p.mns %d" % ps.pid)          # the blinding elements of the shipped parameter OBJECT
        for k_, (nm, sd) in enumerate((("M", b"M"), ("N", b"N"), ("S", b"symmetric"))):
            e = w.eid()
            els[nm] = sc.do("e.dec %d %d %s" % (e, ps.gid, mns.split()[1 + k_])) if mns.startswith("ok") else "raise"
            sc.do("e.arb %d %d %s" % (w.eid(), ps.gid, hx(sd)))
            t = w.eid()
            # member of the order-q subgroup: (q-1)*X + X == Zero  and decodable
            sc.do("e.smul %d %d %d" % (t, e, ps.q - 1))
            t2 = w.eid()
            sc.do("e.add %d %d %d" % (t2, t, e))
            rec.setdefault(name, []).append((nm, sc.do("e.eq %d %d" % (t2, z)), sc.do("g.dec %d %s" % (ps.gid, hx(payload(els[nm]))))))
        t = w.eid()
        sc.do("e.smul %d %d %d" % (t, b, ps.q - 1))
        t2 = w.eid()
        sc.do("e.add %d %d %d" % (t2, t, b))
        rec[name].append(("G", sc.do("e.eq %d %d" % (t2, z)), "ok"))
        rec[name].append(("enc", els, oz))
    # default parameter set
    a, b = w.sid(), w.sid()
    x = 12345
    sc.do("newdef %d A 7077 - - %s" % (a, hx(w.entropy_for(w.ps["ed"], x))))
    sc.do("new %d A %d 7077 - - %s" % (b, w.ps["ed"].pid, hx(w.entropy_for(w.ps["ed"], x))))
    d1, d2 = sc.start(a), sc.start(b)
    sc.meta.update(rec=rec, d=(d1, d2))

    def pred(io, sc):
        for name, items in sc.meta["rec"].items():
            for it in items:
                if it[0] == "enc":
                    els, oz = it[1], it[2]
                    encs = [payload(v) for v in els.values()] + [payload(oz)]
                    if len(set(encs)) != len(encs):
                        return "%s: G, M, N, S, Zero are not pairwise distinct" % name
                else:
                    if it[1] != "ok true":
                        return "%s: q*%s is not the identity" % (name, it[0])
                    if not it[2].startswith("ok"):
                        return "%s: %s is not accepted as a subgroup element" % (name, it[0])
        if sc.meta["d"][0] != sc.meta["d"][1] or not sc.meta["d"][0].startswith("ok"):
            return "the default parameter set is not Ed25519"
        return None
    sc.pred = pred
    out.append(sc)
    # supporting evidence only (a test, not a proof): Miller-Rabin on p, q; q | p-1; generator order
    sc2 = w.scenario("C18/number-theory", ("miller-rabin",))
    fails = []
    for name in ("1024", "2048", "3072"):
        g = w.im.groups[w.ps[name].gid]
        p, q, gen = g.p, g.q, g.Base._e
        if not refmath.is_probable_prime(p, 16 if tier == "quick" else 64):
            fails.append("%s: p is composite" % name)
        if not refmath.is_probable_prime(q, 16 if tier == "quick" else 64):
            fails.append("%s: q is composite" % name)
        if (p - 1) % q:
            fails.append("%s: q does not divide p-1" % name)
        if pow(gen, q, p) != 1 or gen % p == 1:
            fails.append("%s: generator order is not q" % name)
    sc2.do("g.sizes %d" % w.ps["ed"].gid)
    sc2.meta["fails"] = fails
    sc2.pred = lambda io, sc: (sc.meta["fails"][0] if sc.meta["fails"] else None)
    out.append(sc2)
    # constructor accepts only generators whose order divides q
    sc3 = w.scenario("C18/ctor", ("ctor",))
    rec = []
    gid = w.next_gid + 50
    for (p, q) in ((23, 11), (47, 23), (2039, 1019)):
        for g in range(1, p if p < 100 else 60):
            o = sc3.do("group %d int %d %d %d" % (gid, p, q, g))
            rec.append((p, q, g, o))
            gid += 1
    sc3.meta["rec"] = rec

    def pred3(io, sc):
        for (p, q, g, o) in sc.meta["rec"]:
            if (o == "ok") != (pow(g, q, p) == 1):
                return "IntegerGroup(%d,%d,%d): constructor %s but g^q mod p = %d" % (p, q, g, o, pow(g, q, p))
        return None
    sc3.pred = pred3
    out.append(sc3)
    # the shipped constants are still the published ones after OTHER groups over the same (p, q) have been built
    # (another generator of the same subgroup, then the same numbers again): group objects must not be shared or rebound
    sc4 = w.scenario("C18/constants-after-custom-groups", ("constants", "custom-groups"))
    gid = w.next_gid + 400
    snaps = []

    def snap(ps):
        return (sc4.do("g.sizes %d" % ps.gid), sc4.do("e.base %d %d" % (w.eid(), ps.gid)), sc4.do("e.zero %d %d" % (w.eid(), ps.gid)),
                sc4.do("p.mns %d" % ps.pid), sc4.do("e.arb %d %d %s" % (w.eid(), ps.gid, hx(b"M"))))
    for name in ("1024", "2048", "3072"):
        ps = w.ps[name]
        g = w.im.groups[ps.gid]
        p_, q_, gen = g.p, g.q, g.Base._e
        before = snap(ps)
        for g2 in (pow(gen, 2, p_), gen, pow(gen, q_ - 1, p_)):
            sc4.do("group %d int %d %d %d" % (gid, p_, q_, g2))
            sc4.do("e.base %d %d" % (w.eid(), gid))
            gid += 1
            snaps.append((name, before, snap(ps)))
    sc4.meta["snaps"] = snaps

    def pred4(io, sc):
        for (name, a, b) in sc.meta["snaps"]:
            if a != b:
                return "%s: constants of the shipped group / parameter objects changed after other groups over the same (p, q) were constructed" % name
        return None
    sc4.pred = pred4
    out.append(sc4)
    out += default_seeds_after_custom(w, "C18", tier)
    return out


# ---------------------------------------------------------------------------------------
# the property's own scenarios, then repeat presentations and alternating same-width groups
# ---------------------------------------------------------------------------------------
def gen_C05_all(w, tier):
    out = gen_C05(w, tier)
    return out + again(w, "C05", [s for s in out if "finish" not in s.name], 1500 if tier != "thorough" else 6000) + mix_toy_int(w, "C05", tier)


def gen_C13_all(w, tier):
    return gen_C13(w, tier) + mix_toy_int(w, "C13", tier)


def gen_C15_all(w, tier):
    return gen_C15(w, tier) + mix_toy_int(w, "C15", tier)
