"""Executes line-protocol operations against the real library in /repo/src (in-process).

Mirror of lean/Spake2Model/Model/Driver.lean: same operation lines in, same canonical lines out.
Run with /venv/bin/python (needs `cryptography`).
"""
import os, sys, importlib, importlib.util, re, types
from binascii import hexlify, unhexlify

REPO = os.environ.get("VERIF_REPO", "/repo")
sys.path.insert(0, os.path.join(REPO, "src"))
os.environ.setdefault("WARNER_PYTHON_SPAKE2_VERIF", "1")

import spake2
from spake2 import spake2 as sp, groups, util, ed25519_basic as edb, ed25519_group, params as params_mod

SPAKE_ERRORS = ["OnlyCallStartOnce", "OnlyCallFinishOnce", "OffSides", "SerializedTooEarly",
                "WrongSideSerialized", "WrongGroupError", "ReflectionThwarted"]


class EntropyExhausted(Exception):
    pass


class Entropy:
    """serves successive slices of one finite byte stream; logs the sizes requested"""
    def __init__(self, stream):
        self.stream = stream
        self.pos = 0
        self.requests = []

    def __call__(self, count):
        self.requests.append(count)
        if len(self.stream) - self.pos < count:
            raise EntropyExhausted()
        out = self.stream[self.pos:self.pos + count]
        self.pos += count
        return out


class FalsyEntropy(Entropy):
    """an entropy callable whose truth value is False (e.g. a pool object reporting length 0): the library must
    still use it -- `entropy_f or os.urandom` style defaults are wrong"""
    def __bool__(self):
        return False

    def __len__(self):
        return 0


def hx(b):
    return hexlify(b).decode() if b else "-"


def unhx(s):
    return b"" if s == "-" else unhexlify(s)


def exc_str(e):
    n = type(e).__name__
    if isinstance(e, sp.SPAKEError) and n in SPAKE_ERRORS:
        return "raise:" + n
    return "raise:other/" + n


def kind_of(e, edmod=None):
    n = type(e).__name__
    return {"Element": "elem", "ElementOfUnknownGroup": "unknown", "_ZeroElement": "zero", "_Element": "int"}.get(n, n)


def show(e):
    return "%s %s" % (hx(e.to_bytes()), kind_of(e))


TOY_CACHE = {}


def make_toy_ed_module(Q, L, d, I, Bx, By):
    """the library's own ed25519_basic source, executed with toy curve constants"""
    key = (Q, L, d, I, Bx, By)
    if key in TOY_CACHE:
        return TOY_CACHE[key]
    path = os.path.join(REPO, "src", "spake2", "ed25519_basic.py")
    src = open(path).read()
    subs = [(r"^Q = .*$", "Q = %d" % Q), (r"^L = .*$", "L = %d" % L), (r"^d = .*$", "d = %d" % d),
            (r"^I = .*$", "I = %d" % I), (r"^By = .*$", "By = %d" % By), (r"^Bx = .*$", "Bx = %d" % Bx)]
    for pat, rep in subs:
        src, n = re.subn(pat, rep, src, count=1, flags=re.M)
        if n != 1:
            raise RuntimeError("toy curve: cannot patch %s" % pat)
    name = "spake2.ed25519_toy_%d" % len(TOY_CACHE)
    mod = types.ModuleType(name)
    mod.__package__ = "spake2"
    mod.__file__ = path
    sys.modules[name] = mod
    exec(compile(src, path, "exec"), mod.__dict__)
    from spake2.groups import password_to_scalar as p2s

    class ToyGroup:
        def random_scalar(self, entropy_f): return mod.random_scalar(entropy_f)
        def scalar_to_bytes(self, i): return mod.scalar_to_bytes(i)
        def bytes_to_scalar(self, b): return mod.bytes_to_scalar(b)
        def password_to_scalar(self, pw): return p2s(pw, self.scalar_size_bytes, self.order())
        def arbitrary_element(self, seed): return mod.arbitrary_element(seed)
        def bytes_to_element(self, b): return mod.bytes_to_element(b)
        def order(self): return mod.L
    g = ToyGroup()
    g.Base, g.Zero = mod.Base, mod.Zero
    g.scalar_size_bytes = ed25519_group.Ed25519Group.scalar_size_bytes
    g.element_size_bytes = ed25519_group.Ed25519Group.element_size_bytes
    g._edmod = mod
    TOY_CACHE[key] = g
    return g


class Impl:
    def __init__(self):
        self.reset()

    def reset(self):
        self.groups, self.params, self.sessions, self.elems, self.entropies = {}, {}, {}, {}, {}

    def edmod(self, g):
        return getattr(g, "_edmod", edb)

    def run(self, line):
        ws = line.split()
        try:
            return self.dispatch(ws)
        except Exception as e:  # noqa
            return exc_str(e)

    def dispatch(self, ws):
        op = ws[0]
        KL = {"A": sp.SPAKE2_A, "B": sp.SPAKE2_B, "S": sp.SPAKE2_Symmetric}
        if op == "reset":
            self.reset(); return "ok"
        if op == "group":
            gid = int(ws[1])
            if ws[2] == "int":
                self.groups[gid] = groups.IntegerGroup(p=int(ws[3]), q=int(ws[4]), g=int(ws[5]))
            elif ws[2] == "ed":
                self.groups[gid] = ed25519_group.Ed25519Group
            elif ws[2] == "pub":
                self.groups[gid] = {"ed": ed25519_group.Ed25519Group, "1024": groups.I1024,
                                    "2048": groups.I2048, "3072": groups.I3072}[ws[3]]
            elif ws[2] == "edtoy":
                self.groups[gid] = make_toy_ed_module(*[int(x) for x in ws[3:9]])
            else:
                return "bad-op"
            return "ok"
        if op == "unparams":      # drop a parameter-set object (and the sessions using it) so that it is freed
            import gc
            pid = int(ws[1])
            P = self.params.pop(pid, None)
            for sid in [k for k, v in self.sessions.items() if getattr(v, "params", None) is P]:
                del self.sessions[sid]
                self.entropies.pop(sid, None)
            del P
            gc.collect()
            return "ok"
        if op == "reparams":
            # replace parameter set <pid> by a NEW object with other seeds, trying to obtain the address of the
            # freed one (CPython reuses freed blocks): anything keyed on id(params) would go stale
            import gc
            pid, gid = int(ws[1]), int(ws[2])
            P = self.params.pop(pid, None)
            for sid in [k for k, v in self.sessions.items() if getattr(v, "params", None) is P]:
                del self.sessions[sid]
                self.entropies.pop(sid, None)
            old = id(P)
            del P
            gc.collect()
            keep = []
            new = None
            for _ in range(3):
                new = params_mod._Params(self.groups[gid], M=unhx(ws[3]), N=unhx(ws[4]), S=unhx(ws[5]))
                if id(new) == old:
                    break
                keep.append(new)          # hold on to the misses so that the allocator must look elsewhere
            self.params[pid] = new
            del keep
            return "ok"
        if op == "params" and ws[2] == "shipped":
            from spake2.parameters import all as pall
            self.params[int(ws[1])] = {"ed": pall.ParamsEd25519, "1024": pall.Params1024,
                                       "2048": pall.Params2048, "3072": pall.Params3072}[ws[3]]
            return "ok"
        if op == "newdef":
            sid, side = int(ws[1]), ws[2]
            pw, idA, idB, ent = (unhx(x) for x in ws[3:7])
            e = Entropy(ent)
            if side == "S":
                s = sp.SPAKE2_Symmetric(pw, idSymmetric=idA, entropy_f=e)
            else:
                s = KL[side](pw, idA=idA, idB=idB, entropy_f=e)
            self.sessions[sid] = s
            self.entropies[sid] = e
            return "ok"
        if op == "paramsopt":      # `_Params(group, ...)` with the seed arguments marked `~` omitted (constructor defaults)
            pid, gid = int(ws[1]), int(ws[2])
            kw = {k: unhx(v) for k, v in zip("MNS", ws[3:6]) if v != "~"}
            self.params[pid] = params_mod._Params(self.groups[gid], **kw)
            return "ok"
        if op == "params":
            pid, gid = int(ws[1]), int(ws[2])
            self.params[pid] = params_mod._Params(self.groups[gid], M=unhx(ws[3]), N=unhx(ws[4]), S=unhx(ws[5]))
            return "ok"
        if op in ("new", "newfalsy"):
            sid, side, pid = int(ws[1]), ws[2], int(ws[3])
            pw, idA, idB, ent = (unhx(x) for x in ws[4:8])
            e = Entropy(ent) if op == "new" else FalsyEntropy(ent)
            p = self.params[pid]
            if side == "S":
                s = sp.SPAKE2_Symmetric(pw, idSymmetric=idA, params=p, entropy_f=e)
            else:
                s = KL[side](pw, idA=idA, idB=idB, params=p, entropy_f=e)
            self.sessions[sid] = s
            self.entropies[sid] = e
            return "ok"
        if op == "start":
            return "ok " + hx(self.sessions[int(ws[1])].start())
        if op == "finish":
            return "ok " + hx(self.sessions[int(ws[1])].finish(unhx(ws[2])))
        if op == "finishstr":     # a text string instead of bytes (caller bug): must fail AND use the instance up
            return "ok " + hx(self.sessions[int(ws[1])].finish(unhx(ws[2]).decode("latin-1")))
        if op == "finishba":      # the same message delivered as a bytearray (e.g. filled by recv_into)
            return "ok " + hx(self.sessions[int(ws[1])].finish(bytearray(unhx(ws[2]))))
        if op == "ser":
            return "ok " + hx(self.sessions[int(ws[1])].serialize())
        if op == "restore":
            sid, side, pid = int(ws[1]), ws[2], int(ws[3])
            self.sessions[sid] = KL[side].from_serialized(unhx(ws[4]), params=self.params[pid])
            self.entropies[sid] = None
            return "ok"
        if op == "state":
            # secret scalar, outbound element and password scalar (attributes the library's own tests read);
            # the _started/_finished flags are private and observable through behaviour only
            s = self.sessions[int(ws[1])]
            sc = getattr(s, "xy_scalar", None)
            ob = getattr(s, "outbound_message", None)
            return "st %s %s %d" % ("none" if sc is None else sc, "none" if ob is None else hx(ob), s.pw_scalar)
        if op == "p.mns":
            P = self.params[int(ws[1])]
            return "ok %s %s %s" % (hx(P.M.to_bytes()), hx(P.N.to_bytes()), hx(P.S.to_bytes()))
        if op == "entleft":
            e = self.entropies[int(ws[1])]
            return "ok %d" % (0 if e is None else len(e.stream) - e.pos)
        if op == "entreq":
            e = self.entropies[int(ws[1])]
            return "ok " + ("none" if e is None else ",".join(str(x) for x in e.requests) or "-")
        if op == "hashparams":
            return "ok " + s_hex(self.sessions[int(ws[1])].hash_params())
        if op == "sizebits":
            return "ok %d" % util.size_bits(int(ws[1]))
        if op == "sizebytes":
            return "ok %d" % util.size_bytes(int(ws[1]))
        if op == "mask":
            return "ok %d %d" % util.generate_mask(int(ws[1]))
        if op == "n2b":
            return "ok " + hx(util.number_to_bytes(int(ws[1]), int(ws[2])))
        if op == "b2n":
            return "ok %d" % util.bytes_to_number(unhx(ws[1]))
        if op == "randrange":
            e = Entropy(unhx(ws[3]))
            v = util.unbiased_randrange(int(ws[1]), int(ws[2]), e)
            return "ok %d %d" % (v, e.pos)
        if op == "g.sizes":
            g = self.groups[int(ws[1])]
            return "ok %d %d %d" % (g.scalar_size_bytes, g.element_size_bytes, g.order())
        if op == "g.dec":
            return "ok " + show(self.groups[int(ws[1])].bytes_to_element(unhx(ws[2])))
        if op == "g.arb":
            return "ok " + show(self.groups[int(ws[1])].arbitrary_element(unhx(ws[2])))
        if op == "g.p2s":
            return "ok %d" % self.groups[int(ws[1])].password_to_scalar(unhx(ws[2]))
        if op == "g.senc":
            return "ok " + hx(self.groups[int(ws[1])].scalar_to_bytes(int(ws[2])))
        if op == "g.sdec":
            return "ok %d" % self.groups[int(ws[1])].bytes_to_scalar(unhx(ws[2]))
        if op == "g.rand":
            e = Entropy(unhx(ws[2]))
            v = self.groups[int(ws[1])].random_scalar(e)
            return "ok %d %d" % (v, e.pos)
        if op in ("e.base", "e.zero", "e.dec", "e.arb", "e.decu"):
            eid, g = int(ws[1]), self.groups[int(ws[2])]
            if op == "e.base": e = g.Base
            elif op == "e.zero": e = g.Zero
            elif op == "e.dec": e = g.bytes_to_element(unhx(ws[3]))
            elif op == "e.decu": e = self.edmod(g).bytes_to_unknown_group_element(unhx(ws[3]))
            else: e = g.arbitrary_element(unhx(ws[3]))
            self.elems[eid] = e
            return "ok " + show(e)
        if op in ("e.add", "e.sub"):
            a, b = self.elems[int(ws[2])], self.elems[int(ws[3])]
            e = a.add(b) if op == "e.add" else a.subtract(b)
            self.elems[int(ws[1])] = e
            return "ok " + show(e)
        if op == "e.smul":
            e = self.elems[int(ws[2])].scalarmult(int(ws[3]))
            self.elems[int(ws[1])] = e
            return "ok " + show(e)
        if op == "e.neg":
            e = self.elems[int(ws[2])].negate()
            self.elems[int(ws[1])] = e
            return "ok " + show(e)
        if op == "e.eq":
            a, b = self.elems[int(ws[1])], self.elems[int(ws[2])]
            eq, ne = (a == b), (a != b)
            if eq == ne:
                return "ok inconsistent-eq-ne"
            return "ok true" if eq else "ok false"
        if op == "e.enc":
            return "ok " + show(self.elems[int(ws[1])])
        if op == "final":
            idA, idB, X, Y, K, pw = (unhx(x) for x in ws[1:7])
            return "ok " + hx(sp.finalize_SPAKE2(idA, idB, X, Y, K, pw))
        if op == "finalsym":
            idS, m1, m2, K, pw = (unhx(x) for x in ws[1:6])
            return "ok " + hx(sp.finalize_SPAKE2_symmetric(idS, m1, m2, K, pw))
        if op == "sha":
            import hashlib
            return "ok " + hx(hashlib.sha256(unhx(ws[1])).digest())
        if op == "hkdf":
            from cryptography.hazmat.primitives.kdf import hkdf
            from cryptography.hazmat.primitives import hashes
            return "ok " + hx(hkdf.HKDF(algorithm=hashes.SHA256(), length=int(ws[4]), salt=unhx(ws[2]), info=unhx(ws[3])).derive(unhx(ws[1])))
        if op.startswith("ed."):
            m = self.edmod(self.groups[int(ws[1])])
            v = [int(x) for x in ws[2:]]
            b = lambda x: "true" if x else "false"
            if op == "ed.consts":
                return "ok %d %d %d %d %d %d" % (m.Q, m.L, m.d, m.I, m.B[0], m.B[1])
            if op == "ed.add":
                return "ok %d %d %d %d" % tuple(m.add_elements(tuple(v[0:4]), tuple(v[4:8])))
            if op == "ed.addnu":
                return "ok %d %d %d %d" % tuple(m._add_elements_nonunfied(tuple(v[0:4]), tuple(v[4:8])))
            if op == "ed.dbl":
                return "ok %d %d %d %d" % tuple(m.double_element(tuple(v[0:4])))
            if op == "ed.smul":
                return "ok %d %d %d %d" % tuple(m.scalarmult_element(tuple(v[0:4]), v[4]))
            if op == "ed.smulslow":
                return "ok %d %d %d %d" % tuple(m.scalarmult_element_safe_slow(tuple(v[0:4]), v[4]))
            if op == "ed.xrec":
                return "ok %d" % m.xrecover(v[0])
            if op == "ed.inv":
                return "ok %d" % m.inv(v[0])
            if op == "ed.onc":
                return "ok " + b(m.isoncurve([v[0], v[1]]))
            if op == "ed.isz":
                return "ok " + b(m.is_extended_zero(tuple(v[0:4])))
            if op == "ed.aff":
                return "ok %d %d" % tuple(m.xform_extended_to_affine(tuple(v[0:4])))
            if op == "ed.ext":
                return "ok %d %d %d %d" % tuple(m.xform_affine_to_extended((v[0], v[1])))
        if op.startswith("ig."):
            g = self.groups[int(ws[1])]
            E = groups._Element
            if op == "ig.add":
                return "ok %d" % g._add(E(g, int(ws[2])), E(g, int(ws[3])))._e
            if op == "ig.smul":
                return "ok %d" % g._scalarmult(E(g, int(ws[2])), int(ws[3]))._e
            if op == "ig.mem":
                return "ok " + ("true" if g._is_member(E(g, int(ws[2]))) else "false")
        return "bad-op"


def s_hex(hexdigest):
    return hexdigest if hexdigest else "-"


if __name__ == "__main__":
    im = Impl()
    for line in sys.stdin:
        if line.strip():
            print(im.run(line))
