"""Correspondence + search engine.

A *scenario* is a list of (op line, compare mode) plus an optional predicate over the
implementation's outputs (the property statement evaluated directly on the real code).
The engine runs all lines on the real library (in-process, harness/impl.py) and on the Lean
model (compiled driver, or `lake env lean --run` as a fall-back), compares the observables
the property is about, evaluates the predicates, shrinks failures and writes replays.
"""
import json, os, subprocess, sys, time, hashlib

HERE = os.path.dirname(os.path.abspath(__file__))
VERIF = os.path.dirname(HERE)
LEAN = os.path.join(VERIF, "lean")
DRIVER = os.path.join(LEAN, ".lake", "build", "bin", "driver")

EXACT, CLASS, NONE = "exact", "class", "none"


class ModelFailure(Exception):
    pass


class Scenario:
    __slots__ = ("name", "lines", "modes", "pred", "tags", "meta", "impl_out", "w")

    def __init__(self, name, tags=()):
        self.name = name
        self.lines = []
        self.modes = []
        self.pred = None       # f(outputs:list[str], scenario) -> None | str | ("known", id, text)
        self.tags = tuple(tags)
        self.meta = {}
        self.impl_out = None
        self.w = None

    def op(self, line, mode=EXACT):
        self.lines.append(line)
        self.modes.append(mode)
        return len(self.lines) - 1


def coarse(out):
    """canonical observable: drop the diagnostic exception class after raise:other"""
    if out.startswith("raise:other"):
        return "raise:other"
    return out


def klass(out):
    if out.startswith("ok"):
        return "ok"
    return coarse(out)


def run_model(lines):
    """pipe lines to the Lean driver; returns list of output lines"""
    data = ("\n".join(lines) + "\n").encode()
    if os.path.exists(DRIVER):
        cmd = [DRIVER]
    else:
        cmd = ["lake", "env", "lean", "--run", "DriverMain.lean"]
    p = subprocess.run(cmd, input=data, stdout=subprocess.PIPE, stderr=subprocess.PIPE, cwd=LEAN, timeout=3600)
    if p.returncode != 0:
        raise RuntimeError("model driver failed: rc=%s %s" % (p.returncode, p.stderr.decode()[-500:]))
    out = p.stdout.decode().split("\n")
    if out and out[-1] == "":
        out.pop()
    return out


def run_impl(lines, impl=None):
    from impl import Impl
    im = impl or Impl()
    return [im.run(l) for l in lines]


class Result:
    def __init__(self):
        self.disagreements = []   # dicts
        self.failures = []        # dicts (predicate failures not known)
        self.known = {}           # id -> count
        self.known_text = {}
        self.detail_mismatch = 0
        self.n_lines = 0
        self.n_scen = 0
        self.ops = {}
        self.exc = {}
        self.tags = {}
        self.samples = []
        self.distinct = set()


def execute(prelude, scenarios, result=None, keep_samples=3, prelude_out=None, use_model=True):
    """run prelude + all scenarios in one batch on the model (and on the impl unless the
    scenarios were built live and already carry the implementation's outputs)"""
    res = result or Result()
    lines = list(prelude)
    spans = []
    for sc in scenarios:
        spans.append((len(lines), len(lines) + len(sc.lines)))
        lines += sc.lines
    live = all(getattr(sc, "impl_out", None) is not None for sc in scenarios) and prelude_out is not None
    if live:
        impl_out = list(prelude_out)
        for sc in scenarios:
            impl_out += sc.impl_out
    else:
        impl_out = run_impl(lines)
    if use_model:
        try:
            model_out = run_model(lines)
        except Exception as e:
            raise ModelFailure(str(e))
        if len(model_out) != len(lines):
            raise ModelFailure("model returned %d lines for %d ops" % (len(model_out), len(lines)))
    else:
        model_out = impl_out      # model unavailable: only the search predicates are evaluated
    for i, l in enumerate(prelude):
        if coarse(impl_out[i]) != coarse(model_out[i]):
            res.disagreements.append({"scenario": "<prelude>", "line": l, "impl": impl_out[i], "model": model_out[i],
                                      "lines": list(prelude[:i + 1])})
    for sc, (a, b) in zip(scenarios, spans):
        res.n_scen += 1
        io, mo = impl_out[a:b], model_out[a:b]
        for t in sc.tags:
            res.tags[t] = res.tags.get(t, 0) + 1
        bad = None
        for j, (l, mode) in enumerate(zip(sc.lines, sc.modes)):
            res.n_lines += 1
            opn = l.split(" ", 1)[0]
            res.ops[opn] = res.ops.get(opn, 0) + 1
            if io[j].startswith("raise:"):
                res.exc[io[j]] = res.exc.get(io[j], 0) + 1
            if mode == NONE:
                continue
            x, y = (coarse(io[j]), coarse(mo[j])) if mode == EXACT else (klass(io[j]), klass(mo[j]))
            if x != y:
                if bad is None:
                    bad = j
            elif io[j] != mo[j] and mode == EXACT:
                res.detail_mismatch += 1
        if bad is not None and len(res.disagreements) < 50:
            res.disagreements.append({"scenario": sc.name, "line": sc.lines[bad], "impl": io[bad], "model": mo[bad],
                                      "lines": list(prelude) + sc.lines[:bad + 1], "tags": list(sc.tags)})
        if sc.pred is not None:
            v = sc.pred(io, sc)
            if v is not None:
                if isinstance(v, tuple) and v[0] == "known":
                    res.known[v[1]] = res.known.get(v[1], 0) + 1
                    res.known_text[v[1]] = v[2]
                elif len(res.failures) < 50:
                    res.failures.append({"scenario": sc.name, "what": v, "lines": list(prelude) + sc.lines,
                                         "impl": io, "tags": list(sc.tags)})
        key = hashlib.sha1(("\n".join(sc.lines)).encode()).hexdigest()
        res.distinct.add(key)
        if len(res.samples) < keep_samples:
            res.samples.append({"scenario": sc.name, "ops": [l[:140] for l in sc.lines[:10]], "impl": [o[:100] for o in io[:10]]})
    return res


def shrink_disagreement(d):
    """greedy removal of lines while impl and model still disagree on the last line"""
    lines = list(d["lines"])
    last = lines[-1]

    def disagrees(ls):
        try:
            io, mo = run_impl(ls), run_model(ls)
        except Exception:
            return False
        return coarse(io[-1]) != coarse(mo[-1]) and io[-1] != "bad-op" and mo[-1] != "bad-op"
    if disagrees([last]):
        return [last]            # a stateless operation: the single line is the whole replay
    if not disagrees(lines):
        return lines
    # keep the definitions (groups / parameter sets), try dropping everything else in large steps first
    defs = [l for l in lines[:-1] if l.split(" ", 1)[0] in ("group", "params")]
    if disagrees(defs + [last]):
        lines = defs + [last]
    i = 0
    budget = 40
    while i < len(lines) - 1 and budget > 0:
        cand = lines[:i] + lines[i + 1:]
        budget -= 1
        if disagrees(cand):
            lines = cand
        else:
            i += 1
    return lines


def write_replay(prop, n, payload):
    d = os.path.join(VERIF, "replays")
    os.makedirs(d, exist_ok=True)
    path = os.path.join(d, "%s-%d.json" % (prop, n))
    with open(path, "w") as f:
        json.dump(payload, f, indent=1)
    return os.path.relpath(path, VERIF)


def replay(path):
    p = json.load(open(path))
    lines = p.get("lines", [])
    print("replaying %d op lines of %s" % (len(lines), path))
    if lines:
        io, mo = run_impl(lines), run_model(lines)
        for l, a, b in zip(lines, io, mo):
            mark = "  " if coarse(a) == coarse(b) else "!!"
            print("%s %s\n     impl : %s\n     model: %s" % (mark, l[:160], a[:160], b[:160]))
    for k in ("what", "theorem", "obligation", "detail"):
        if k in p:
            print("%s: %s" % (k, p[k]))
