"""./check <Cxx> [--tier quick|thorough] [--replay file]

1 regenerate Gen/*.lean from /repo (Tie A)      2 lake build of the property's theorems + driver
3 audit (#print axioms, forbidden tokens)        4 correspondence model <-> implementation (Tie B)
5 failing-input search on the real code          6 verdict          7 evidence/<id>.json
"""
import fcntl, json, os, random, re, subprocess, sys, time, traceback

HERE = os.path.dirname(os.path.abspath(__file__))
VERIF = os.path.dirname(HERE)
LEAN = os.path.join(VERIF, "lean")
sys.path.insert(0, HERE)
import engine

# Properties whose statement IS "the output equals the published definition": for these, an
# implementation output that differs from the model's (the model is proved equal to the definition
# and carries the published constants) on one of the listed operations is itself a concrete failing input.
CONFORMANCE = {
    "C03": {"start", "finish", "g.arb", "e.arb", "g.p2s", "e.base", "g.sizes", "p.mns", "newdef"},
    "C10": {"ser"},
    "C14": {"g.p2s", "g.arb", "e.arb", "p.mns"},
    "C15": {"n2b", "b2n", "g.senc", "g.sdec", "sizebits", "sizebytes"},
    "C17": {"final", "finalsym"},
    "C18": {"p.mns", "g.sizes", "e.base"},
}

ALLOWED_AXIOMS = {"propext", "Classical.choice", "Quot.sound"}
FORBIDDEN = re.compile(r"\b(sorry|admit|native_decide|bv_decide|implemented_by|unsafe)\b|^\s*axiom\s|maxHeartbeats\s+0\b")
TRUSTED_BASE = [
    "Lean 4.33 kernel (leanchecker re-check in the thorough tier); axioms of every property theorem within {propext, Classical.choice, Quot.sound}; no native_decide / bv_decide / sorry / added axioms; `decide +kernel` (kernel GMP arithmetic) for evaluation on shipped constants",
    "tools/py2lean.py: the Python->Lean translation of the integer kernels and constants (re-run on every check; its output is also re-validated by the correspondence check)",
    "harness/: correspondence check (differential, line protocol) between the executable Lean model and the real library in /repo/src; its reach is what this file reports, not more",
    "modelled, not verified: CPython integers and 3-argument pow, hashlib.sha256 and cryptography's HKDF (replaced by the Lean implementations and compared), json, binascii, sorted() on two byte strings; interpreter run with assertions enabled; entropy_f returns exactly the bytes requested",
    "SHA-256 is a concrete function in the model: 'keys differ' conclusions are stated as `Collision \\/ ...`; no injectivity axiom is added",
    "primality of the three shipped integer-group moduli p is NOT provable with the installed tools and is an explicit hypothesis of the theorems that need it",
]


GEN_SOURCES = {
    "Ed25519Arith.lean": ["src/spake2/ed25519_basic.py"],
    "IntGroupArith.lean": ["src/spake2/groups.py"],
    "UtilArith.lean": ["src/spake2/util.py"],
    "Consts.lean": ["src/spake2/spake2.py", "src/spake2/params.py", "src/spake2/ed25519_group.py", "src/spake2/parameters/ed25519.py",
                    "src/spake2/parameters/i1024.py", "src/spake2/parameters/i2048.py", "src/spake2/parameters/i3072.py", "src/spake2/parameters/all.py"],
    "ProtoShape.lean": ["src/spake2/spake2.py"],
    "EdShape.lean": ["src/spake2/ed25519_basic.py"],
    "ProtoFlow.lean": ["src/spake2/spake2.py"],
    "GroupShape.lean": ["src/spake2/groups.py", "src/spake2/ed25519_basic.py", "src/spake2/ed25519_group.py"],
}
GEN_DIR = os.path.join(LEAN, "Spake2Model", "Gen")
PIN_DIR = os.path.join(LEAN, "GenPinned")


def gen_differs_from_pinned(g):
    try:
        return open(os.path.join(GEN_DIR, g)).read() != open(os.path.join(PIN_DIR, g)).read()
    except OSError:
        return True


def restore_pinned(g):
    """put back the pinned (last proved, committed) translation of one generated file"""
    import shutil
    if gen_differs_from_pinned(g) and os.path.exists(os.path.join(PIN_DIR, g)):
        shutil.copy2(os.path.join(PIN_DIR, g), os.path.join(GEN_DIR, g))


def write_analysis():
    """supporting evidence for C16 only (never part of the verdict): stores that are not to locals / self"""
    try:
        rc, out = sh([sys.executable, os.path.join(VERIF, "tools", "write_analysis.py")], timeout=60)
        return json.loads(out)
    except Exception as e:
        return {"error": str(e)}


def sh(cmd, cwd=None, timeout=3600, env=None):
    p = subprocess.run(cmd, cwd=cwd, stdout=subprocess.PIPE, stderr=subprocess.STDOUT, timeout=timeout, env=env)
    return p.returncode, p.stdout.decode(errors="replace")


class Lock:
    def __enter__(self):
        os.makedirs(os.path.join(VERIF, "work"), exist_ok=True)
        self.f = open(os.path.join(VERIF, "work", "lake.lock"), "w")
        fcntl.flock(self.f, fcntl.LOCK_EX)
        return self

    def __exit__(self, *a):
        fcntl.flock(self.f, fcntl.LOCK_UN)
        self.f.close()


def strip_comments(src):
    src = re.sub(r"/-.*?-/", "", src, flags=re.S)
    return "\n".join(l.split("--")[0] for l in src.split("\n"))


def lean_files():
    for root in ("Spake2Verif", "Spake2Model"):
        for d, _, fs in os.walk(os.path.join(LEAN, root)):
            for f in fs:
                if f.endswith(".lean"):
                    yield os.path.join(d, f)


def imports_closure(module):
    """project-local modules transitively imported by `module`"""
    seen, todo = set(), [module]
    while todo:
        m = todo.pop()
        if m in seen:
            continue
        path = os.path.join(LEAN, *m.split(".")) + ".lean"
        if not os.path.exists(path):
            continue
        seen.add(m)
        for l in open(path):
            mm = re.match(r"\s*(?:public\s+)?import\s+(Spake2\S+)", l)
            if mm:
                todo.append(mm.group(1))
    return seen


def theorems_of(prop):
    path = os.path.join(LEAN, "Spake2Verif", "Properties", prop + ".lean")
    if not os.path.exists(path):
        return []
    src = strip_comments(open(path).read())
    ns = re.search(r"^namespace\s+(\S+)", src, flags=re.M)
    ns = ns.group(1) + "." if ns else ""
    return [ns + m for m in re.findall(r"^theorem\s+([^\s:({\[]+)", src, flags=re.M)]


def enclosing_theorem(path, line):
    try:
        ls = open(path).read().split("\n")
    except OSError:
        return None
    for i in range(min(line, len(ls)) - 1, -1, -1):
        m = re.match(r"\s*(?:private\s+|protected\s+)?(?:theorem|lemma|def|instance|example)\s+([^\s:({\[]+)?", ls[i])
        if m:
            return m.group(1) or "example"
    return None


def main():
    argv = sys.argv[1:]
    if not argv:
        print(__doc__)
        return 2
    prop = argv[0]
    tier = os.environ.get("VERIF_TIER", "quick")
    replay = None
    i = 1
    while i < len(argv):
        if argv[i] == "--tier":
            tier = argv[i + 1]; i += 2
        elif argv[i] == "--replay":
            replay = argv[i + 1]; i += 2
        else:
            i += 1
    if tier not in ("quick", "thorough"):
        tier = "quick"
    if replay:
        engine.replay(replay)
        return 0
    seed = int(os.environ.get("VERIF_SEED", "1") or "1")
    t0 = time.time()
    import scen
    if prop not in scen.REGISTRY:
        print("unknown property %s" % prop)
        return 2
    broken = []      # obligations that no longer check: dicts {kind, name, detail}
    obligations = 0
    discharged = 0
    log = []

    # ---- 1. Tie A: regenerate -------------------------------------------------------
    anchors = set()
    for l in open(os.path.join(VERIF, "properties.jsonl")):
        pj = json.loads(l)
        if pj["id"] == prop:
            anchors = set(pj["anchors"]["files"])
    degraded = []     # Tie A obligations outside this property's anchors that fell back to the pinned model
    with Lock():
        rc, out = sh([sys.executable if os.path.exists("/venv/bin/python") else "python3", os.path.join(VERIF, "tools", "py2lean.py")])
        gen_report = {}
        try:
            gen_report = json.loads(out)
        except Exception:
            pass
        # one translation obligation per generated file; it belongs to this property iff the property is
        # anchored in one of the file's sources.  Elsewhere a failed translation leaves the pinned
        # (last proved) model in place and the tie falls back to the correspondence check (Tie B).
        terr = {}
        for e in gen_report.get("errors", [] if rc == 0 else ["Ed25519Arith.lean: " + out[-300:]]):
            terr.setdefault(e.split(":", 1)[0], []).append(e)
        escalate = False
        prop_deps = imports_closure("Spake2Verif.Properties." + prop)
        for g, srcs in GEN_SOURCES.items():
            # ... and the property's theorems (or the model under them) actually import the generated file
            used = ("Spake2Model.Gen." + g[:-5]) in prop_deps or not prop_deps
            mine = bool(set(srcs) & anchors) and used
            if g in terr and not used:
                restore_pinned(g)
            elif g in terr:
                # The translator cannot read the new shape of the source.  That says nothing about the code: Tie A is
                # unavailable for this file on this run, the pinned (last proved) translation stays in place and the
                # property is decided by Tie B -- for a property anchored in that file at THOROUGH depth.  (A proof
                # that fails on successfully regenerated code is different: see below.)
                degraded.append("translation of %s failed (%s): pinned model + correspondence%s used" % (
                    g, terr[g][0][:160], " at thorough depth" if mine else ""))
                escalate = escalate or mine
                restore_pinned(g)
            elif mine:
                obligations += 1
                discharged += 1
        # ---- 2. build ---------------------------------------------------------------
        module = "Spake2Verif.Properties." + prop
        thms = theorems_of(prop)
        have_props = os.path.exists(os.path.join(LEAN, "Spake2Verif", "Properties", prop + ".lean"))

        def lake(target):
            rc_, out_ = sh(["lake", "build", target], cwd=LEAN, timeout=3000)
            if rc_ != 0 and not re.search(r"error: \S+?\.lean:\d+:\d+", out_):
                # a failure without any Lean diagnostic is a tool hiccup (interrupted job, stale trace), not a
                # broken proof: build once more before judging
                rc_, out_ = sh(["lake", "build", target], cwd=LEAN, timeout=3000)
            return rc_, out_

        def build_all():
            rc_d, out_d = lake("driver")
            rc_p, out_p = (lake(module) if have_props and rc_d == 0 else (rc_d, out_d))
            return rc_d, out_d, rc_p, out_p
        rc_d, out_d, rc_p, out_p = build_all()
        if (rc_d != 0 or rc_p != 0):
            # does the failure come from generated code (or proofs about it) whose source is not an anchor?
            failing = set(m.group(1) for m in re.finditer(r"error: (\S+?\.lean):\d+:\d+", out_d + out_p))
            blame = set()
            for f in failing:
                mod = f[:-5].replace("/", ".")
                for dep in imports_closure(mod) | {mod}:
                    if dep.startswith("Spake2Model.Gen."):
                        blame.add(dep.split(".")[-1] + ".lean")
            foreign = [g for g in blame if not (set(GEN_SOURCES.get(g, [])) & anchors) and gen_differs_from_pinned(g)]
            if foreign and not any(set(GEN_SOURCES.get(g, [])) & anchors and gen_differs_from_pinned(g) for g in blame):
                for g in foreign:
                    restore_pinned(g)
                    degraded.append("proofs about regenerated %s no longer check; not an anchor of %s: pinned model + correspondence used" % (g, prop))
                rc_d, out_d, rc_p, out_p = build_all()
        model_ok = rc_d == 0
        if not model_ok:
            m = re.search(r"error: (\S+?):(\d+):\d+: (.*)", out_d)
            broken.append({"kind": "build", "name": "model/driver" + (" (%s)" % m.group(1) if m else ""),
                           "detail": (m.group(0) if m else out_d[-400:])[:400]})
        else:
            # private copy of the driver: a concurrent check may rebuild the shared binary
            import shutil
            priv = os.path.join(VERIF, "work", "driver.%s.%d" % (prop, os.getpid()))
            os.makedirs(os.path.dirname(priv), exist_ok=True)
            shutil.copy2(engine.DRIVER, priv)
            engine.DRIVER = priv
        proof_ok = False
        if have_props and model_ok:
            proof_ok = rc_p == 0
            if not proof_ok:
                failed = []
                for m in re.finditer(r"error: (\S+?\.lean):(\d+):\d+: (.*)", out_p):
                    t = enclosing_theorem(os.path.join(LEAN, m.group(1)), int(m.group(2)))
                    failed.append("%s:%s %s" % (m.group(1), m.group(2), t or "?"))
                if not failed:
                    failed = [out_p[-300:]]
                broken.append({"kind": "theorem", "name": ", ".join(sorted(set(failed))[:6]), "detail": out_p[-600:]})
        obligations += max(1, len(thms))
        if proof_ok:
            discharged += max(1, len(thms))
        # ---- 3. audit ---------------------------------------------------------------
        axioms_seen = {}
        if proof_ok and thms:
            obligations += 1
            af = os.path.join(LEAN, "work_audit_%s.lean" % prop)
            with open(af, "w") as f:
                f.write("import %s\n" % module + "".join("#print axioms %s\n" % t for t in thms))
            rc_a, out_a = sh(["lake", "env", "lean", af], cwd=LEAN, timeout=1800)
            os.unlink(af)
            bad_ax = []
            for m in re.finditer(r"'([^']+)' depends on axioms: \[([^\]]*)\]", out_a):
                ax = {a.strip() for a in m.group(2).replace("\n", " ").split(",") if a.strip()}
                axioms_seen[m.group(1)] = sorted(ax)
                if not ax <= ALLOWED_AXIOMS:
                    bad_ax.append("%s: %s" % (m.group(1), sorted(ax - ALLOWED_AXIOMS)))
            for m in re.finditer(r"'([^']+)' does not depend on any axioms", out_a):
                axioms_seen[m.group(1)] = []
            missing = [t for t in thms if t not in axioms_seen]
            if rc_a != 0 or bad_ax or missing:
                broken.append({"kind": "audit", "name": "axioms", "detail": "; ".join(bad_ax + ["no axiom report for " + t for t in missing[:5]]) or out_a[-300:]})
            else:
                discharged += 1
        # forbidden tokens in every file the property depends on
        obligations += 1
        hits = []
        deps = imports_closure(module) if have_props else set()
        for path in lean_files():
            rel = os.path.relpath(path, LEAN)
            mod = rel[:-5].replace(os.sep, ".")
            if have_props and mod not in deps and not rel.startswith("Spake2Model"):
                continue
            for n, l in enumerate(strip_comments(open(path).read()).split("\n"), 1):
                if FORBIDDEN.search(l):
                    hits.append("%s:%d: %s" % (rel, n, l.strip()[:80]))
        if hits:
            broken.append({"kind": "audit", "name": "forbidden construct", "detail": "; ".join(hits[:5])})
        else:
            discharged += 1
        if tier == "thorough" and proof_ok:
            obligations += 1
            rc_c, out_c = sh(["lake", "env", "leanchecker", module], cwd=LEAN, timeout=3400)
            if rc_c != 0:
                broken.append({"kind": "audit", "name": "leanchecker", "detail": out_c[-400:]})
            else:
                discharged += 1

    # ---- 4/5. correspondence + search -----------------------------------------------
    rng = random.Random(seed * 1000003 + sum(ord(c) for c in prop))
    res = engine.Result()
    corr_error = None
    slices = 0
    try:
        for slice_name, run in scen.REGISTRY[prop](rng, "thorough" if escalate else tier):
            slices += 1
            try:
                run(res, model_ok)
            except engine.ModelFailure as e:
                corr_error = "%s: %s" % (slice_name, e)
    except Exception as e:
        traceback.print_exc()
        print("harness failure: %s" % e)
        return 2
    obligations += max(1, slices)
    if model_ok and not res.disagreements and corr_error is None:
        discharged += max(1, slices)
    elif model_ok:
        d = res.disagreements[0] if res.disagreements else None
        broken.append({"kind": "correspondence", "name": (d["scenario"] if d else corr_error),
                       "detail": ("op `%s`: impl=%s model=%s" % (d["line"][:120], d["impl"][:100], d["model"][:100])) if d else corr_error,
                       "lines": engine.shrink_disagreement(d) if d else []})

    # ---- 6. verdict ------------------------------------------------------------------
    kf = json.load(open(os.path.join(VERIF, "known_findings.json")))
    listed = {f["id"]: f for f in kf.get("findings", []) if f["property"] == prop}
    violations = []
    nrep = 0
    for f in res.failures[:5]:
        nrep += 1
        path = engine.write_replay(prop, nrep, {"property": prop, "kind": "failing-input", "what": f["what"], "scenario": f["scenario"],
                                                "lines": f["lines"], "impl": f.get("impl", [])[-8:], "seed": seed, "tier": tier})
        violations.append("VIOLATION property=%s replay=%s" % (prop, path))
        log.append("failing input: %s: %s" % (f["scenario"], f["what"]))
    for d in res.disagreements[:5]:
        opn = d["line"].split(" ", 1)[0]
        if opn in CONFORMANCE.get(prop, ()) and len(violations) < 5:
            nrep += 1
            what = "`%s`: the implementation returns %s, the published definition (proved model) gives %s" % (d["line"][:200], d["impl"][:120], d["model"][:120])
            path = engine.write_replay(prop, nrep, {"property": prop, "kind": "failing-input", "what": what, "scenario": d["scenario"],
                                                    "lines": engine.shrink_disagreement(d), "seed": seed, "tier": tier})
            violations.append("VIOLATION property=%s replay=%s" % (prop, path))
            log.append("failing input: %s: %s" % (d["scenario"], what))
    for kid, cnt in sorted(res.known.items()):
        if kid in listed:
            print("KNOWN-FINDING: property=%s %s: %s (%d inputs of this class in this run)" % (prop, kid, listed[kid]["what"], cnt))
        else:
            nrep += 1
            path = engine.write_replay(prop, nrep, {"property": prop, "kind": "failing-input", "what": res.known_text.get(kid), "class": kid})
            violations.append("VIOLATION property=%s replay=%s" % (prop, path))
    if broken and not violations:
        # a broken obligation and no concrete failing input: still a violation (property no longer shown)
        nrep += 1
        b = broken[0]
        path = engine.write_replay(prop, nrep, {"property": prop, "kind": "broken-obligation", "obligation": b["kind"], "theorem": b["name"],
                                                "detail": b["detail"], "lines": b.get("lines", []), "all_broken": [{k: v for k, v in x.items() if k != "lines"} for x in broken],
                                                "seed": seed, "tier": tier})
        violations.append("VIOLATION property=%s replay=%s no-failing-input-found" % (prop, path))
    for b in broken:
        log.append("obligation no longer checks: [%s] %s :: %s" % (b["kind"], b["name"], b["detail"][:300].replace("\n", " ")))

    # ---- 7. evidence -----------------------------------------------------------------
    wall = time.time() - t0
    ev = {
        "property_id": prop, "tier": tier, "seed": seed, "level": "proof",
        "coverage": {
            "obligations": obligations, "discharged": discharged,
            "checker_cmd": "cd lean && lake build Spake2Verif.Properties.%s && lake env lean <#print axioms of each theorem>%s" % (prop, " && lake env leanchecker" if tier == "thorough" else ""),
            "trusted_base": TRUSTED_BASE,
            "theorems": thms, "axioms": axioms_seen,
            "translated_sources": gen_report.get("files", {}),
            "correspondence": {"slices": slices, "scenarios": res.n_scen, "op_lines": res.n_lines, "ops_by_kind": res.ops,
                               "exceptions_hit": res.exc, "scenario_tags": res.tags, "disagreements": len(res.disagreements),
                               "diagnostic_exception_class_mismatches": res.detail_mismatch},
            "traces_validated_against_impl": res.n_scen,
            "evaluations": res.n_lines, "distinct_nontrivial": len(res.distinct),
            "rule": "one evaluation = one operation line executed on both the real library and the Lean model; distinct = scenarios with distinct op-line text; the search part (predicates evaluated on the real code) is a test, not a proof",
            "samples": res.samples or [{"note": "no scenarios"}],
            "search_failures": len(res.failures), "known_finding_inputs": res.known,
            "broken_obligations": [{k: v for k, v in b.items() if k != "lines"} for b in broken],
            "tie_a_fallbacks": degraded,
            "static_write_analysis": write_analysis() if prop == "C16" else None,
        },
        "assumptions": TRUSTED_BASE[3:],
        "wall_s": round(wall, 2), "violations": len(violations),
    }
    os.makedirs(os.path.join(VERIF, "evidence"), exist_ok=True)
    with open(os.path.join(VERIF, "evidence", prop + ".json"), "w") as f:
        json.dump(ev, f, indent=1)
    for dg in degraded:
        print("note: " + dg)
    if engine.DRIVER.startswith(os.path.join(VERIF, "work")):
        try:
            os.unlink(engine.DRIVER)
        except OSError:
            pass
    for l in log:
        print(l)
    print("%s tier=%s seed=%d: obligations %d/%d, %d scenarios, %d op lines, %d disagreements, %d failing inputs, %.1fs" % (
        prop, tier, seed, discharged, obligations, res.n_scen, res.n_lines, len(res.disagreements), len(res.failures), wall))
    for v in violations:
        print(v)
    return 1 if violations else 0


if __name__ == "__main__":
    try:
        sys.exit(main())
    except subprocess.TimeoutExpired as e:
        print("timeout: %s" % e)
        sys.exit(2)
