"""Per-property claim texts for MANIFEST.json (level, note, technique)."""
NOTE = ("Trusted: Lean 4.33 kernel; axioms ⊆ {propext, Classical.choice, Quot.sound}; tools/py2lean.py; the correspondence harness "
        "(differential testing, reach reported in the evidence); CPython ints/pow, hashlib, cryptography HKDF, json, binascii modelled "
        "and compared, not verified; assertions enabled. ")
CLAIMS = {}
