"""Scenario generators for the state-machine properties C07, C08, C09, C10, C16."""
import itertools, json
from world import *
import engine
from scen_proto import key_of

HOPS = ["start", "fin-valid", "fin-own", "fin-unknown", "fin-reflect", "fin-undec", "fin-ident", "ser", "restore"]


def peer_message(w, ps, side, x=11):
    t = w.scenario("peer", ())
    peer_side = {"A": "B", "B": "A", "S": "S"}[side]
    p_ = t.new(peer_side, ps, b"pw", b"", b"", w.entropy_for(ps, x), NONE)
    return payload(t.start(p_, NONE))


def identity_bytes(w, ps):
    return payload(w.im.run("e.zero %d %d" % (w.eid(), ps.gid)))


# ---------------------------------------------------------------------------------------
# C07 single use over every call history
# ---------------------------------------------------------------------------------------
def run_history(w, sc, ps, side, hist, x=5):
    """executes a history on a fresh instance; returns the list of (op, outcome, scalar-after)"""
    s_ = sc.new(side, ps, b"pw", b"", b"", w.entropy_for(ps, x))
    # the message this instance sends (known in advance: same scalar on a twin)
    t = w.scenario("twin", ())
    tw = t.new(side, ps, b"pw", b"", b"", w.entropy_for(ps, x), NONE)
    own = payload(t.start(tw, NONE))
    # a valid peer message whose element differs from ours (tiny groups can collide: that would be
    # the legitimate ReflectionThwarted case, not "a valid peer message")
    for px in range(11, 11 + 40):
        peer = peer_message(w, ps, side, px % ps.q)
        if peer[1:] != own[1:] and peer[1:] != identity_bytes(w, ps):
            break
    peer_b = peer[:1]
    own_b = {"A": b"A", "B": b"B", "S": b"S"}[side]
    ident = identity_bytes(w, ps)
    sc.meta["own_is_identity"] = own[1:] == ident
    trace = []
    for op in hist:
        if op == "start":
            o = sc.start(s_)
        elif op == "fin-valid":
            o = sc.finish(s_, peer)
        elif op == "fin-own":
            o = sc.finish(s_, (b"A" if side == "S" else own_b) + peer[1:])
        elif op == "fin-unknown":
            o = sc.finish(s_, b"Z" + peer[1:])
        elif op == "fin-reflect":
            o = sc.finish(s_, peer_b + own[1:])
        elif op == "fin-undec":
            o = sc.finish(s_, peer_b + b"\xff" * (ps.esize - 1))
        elif op == "fin-ident":
            o = sc.finish(s_, peer_b + ident)
        elif op == "ser":
            o = sc.do("ser %d" % s_)
        elif op == "restore":
            o = sc.do("ser %d" % s_)
            data = payload(o)
            if data is not None:
                n_ = w.sid()
                r_ = sc.do("restore %d %s %d %s" % (n_, side, ps.pid, hx(data)))
                if r_ == "ok":
                    s_ = n_
                    o = "ok-restored"
                else:
                    o = r_
        st = sc.do("state %d" % s_)
        trace.append((op, o, st.split()[1] if len(st.split()) > 1 else "?"))
    return trace


def spec_automaton(side, kind, trace, own_is_identity=False):
    """the specification automaton: returns None or a description of the first deviation"""
    started = finished = False
    restored = False
    scalar = None
    n_start_ok = 0
    n_fin_ok = 0
    for (op, o, sc_after) in trace:
        if op == "start":
            if started:
                if o != "raise:OnlyCallStartOnce":
                    return "start() on a started%s instance: %s" % (" (restored)" if restored else "", o)
            else:
                if not o.startswith("ok"):
                    return "first start() failed: %s" % o
                started = True
                n_start_ok += 1
                if n_start_ok > 1:
                    return "start() returned a message twice"
        elif op.startswith("fin-"):
            if finished:
                if o != "raise:OnlyCallFinishOnce":
                    return "finish() after finish(): %s" % o
            else:
                finished = True
                if not started:
                    if o.startswith("ok"):
                        return "finish() before start() returned a key"
                elif op == "fin-valid":
                    if not o.startswith("ok"):
                        return "finish(valid) failed: %s" % o
                    n_fin_ok += 1
                elif op in ("fin-own", "fin-unknown"):
                    if o.startswith("ok"):
                        return "finish(%s) returned a key" % op
                    if side in "AB" and o != "raise:OffSides":
                        return "finish(%s): %s" % (op, o)
                elif op == "fin-reflect":
                    if kind == "ed" and own_is_identity:
                        # the instance itself sent the identity, which Ed25519 decoding refuses before the reflection test
                        if o.startswith("ok"):
                            return "finish(reflected identity) returned a key"
                    elif o != "raise:ReflectionThwarted":
                        return "finish(reflected): %s" % o
                elif op == "fin-undec":
                    if o.startswith("ok"):
                        return "finish(undecodable) returned a key"
                elif op == "fin-ident":
                    if kind == "ed" and o.startswith("ok"):
                        return "finish(identity) returned a key on Ed25519"
        elif op == "ser":
            if not started:
                if o != "raise:SerializedTooEarly":
                    return "serialize() before start(): %s" % o
            elif not o.startswith("ok"):
                return "serialize() failed: %s" % o
        elif op == "restore":
            if not started:
                if o != "raise:SerializedTooEarly":
                    return "serialize() before start(): %s" % o
            else:
                if o != "ok-restored":
                    return "restore of own state failed: %s" % o
                restored = True
                finished = False        # `_finished` is not persisted: a restored instance is a new, unfinished object
        if sc_after != "none":
            if scalar is None:
                scalar = sc_after
            elif scalar != sc_after:
                return "the secret scalar changed during the life of the instance"
        elif scalar is not None:
            return "the secret scalar disappeared"
    return None


def gen_C07(w, tier):
    r = w.rng
    out = []
    big = tier == "thorough"
    toy = w.ps.get("toy2039_1019_4") or [p for p in w.ps.values() if p.toy and p.kind == "int" and not p.base][0]
    depth = 4 if big else 3

    def add(ps, side, hist, tag, x=5):
        sc = w.scenario("C07/%s/%s/x%d/%s" % (ps.name, side, x, "-".join(hist)), (tag, "side:" + side, "depth:%d" % len(hist), "scalar:%s" % ("0" if x == 0 else "q-1" if x == ps.q - 1 else "mid")))
        tr = run_history(w, sc, ps, side, hist, x)
        sc.meta.update(trace=tr, side=side, kind=ps.kind)
        sc.pred = lambda io, sc: spec_automaton(sc.meta["side"], sc.meta["kind"], sc.meta["trace"], sc.meta.get("own_is_identity", False))
        out.append(sc)
    for side in "ABS":
        for d in range(1, depth + 1):
            for hist in itertools.product(HOPS, repeat=d):
                add(toy, side, hist, "exhaustive-toy")
                if d <= 2 or big:
                    add(toy, side, hist, "exhaustive-toy-scalar0", x=0)
        for hist in itertools.product(HOPS, repeat=2):
            add(toy, side, hist, "exhaustive-toy-scalar-q-1", x=toy.q - 1)
        # deeper, sampled
        for _ in range(150 if not big else 3000):
            d = r.randrange(depth + 1, depth + 5)
            add(toy, side, tuple(r.choice(HOPS) for _ in range(d)), "sampled-toy")
    # a first start() that fails inside the entropy function still uses the instance up
    for ps in (toy, w.ps["ed"], w.ps["1024"]):
        for side in "ABS":
            for ent in (b"", b"\x01", w.entropy_for(ps, 3)[:-1]):
                for tail in (("start",), ("ser",), ("start", "start"), ("ser", "start"), ("fin", "start")):
                    sc = w.scenario("C07/%s/%s/failing-start/%s" % (ps.name, side, "-".join(tail)), ("failing-first-start", "side:" + side))
                    s_ = sc.new(side, ps, b"pw", b"", b"", ent)
                    first = sc.start(s_)
                    outs = []
                    for op in tail:
                        if op == "start":
                            outs.append(("start", sc.start(s_)))
                        elif op == "ser":
                            outs.append(("ser", sc.do("ser %d" % s_)))
                        else:
                            outs.append(("fin", sc.finish(s_, peer_message(w, ps, side))))
                    sc.meta.update(first=first, outs=outs)

                    def pred_fs(io, sc):
                        if sc.meta["first"].startswith("ok"):
                            return "start() succeeded without enough entropy"
                        for (op, o) in sc.meta["outs"]:
                            if op == "start" and o != "raise:OnlyCallStartOnce":
                                return "start() after a failed start(): %s (the instance must be used up)" % o
                            if o.startswith("ok"):
                                return "%s returned a result on an instance whose start() failed: %s" % (op, o[:60])
                        return None
                    sc.pred = pred_fs
                    out.append(sc)
    # a finish() that fails on a non-bytes argument still uses the instance up (implementation only: the model
    # has no text strings; the requirement checked is the single-use discipline of the NEXT calls)
    for ps in (toy, w.ps["ed"]):
        for side in "ABS":
            sc = w.scenario("C07/%s/%s/finish-str" % (ps.name, side), ("finish-with-str", "side:" + side))
            s_ = sc.new(side, ps, b"pw", b"", b"", w.entropy_for(ps, 4))
            sc.start(s_)
            peer = peer_message(w, ps, side)
            o1 = sc.do("finishstr %d %s" % (s_, hx(peer)), NONE)
            o2 = sc.do("finish %d %s" % (s_, hx(peer)), NONE)
            t_ = sc.new(side, ps, b"pw", b"", b"", w.entropy_for(ps, 4))
            sc.start(t_)
            sc.finish(t_, peer)
            o3 = sc.do("finishstr %d %s" % (t_, hx(peer)), NONE)
            sc.meta.update(o=(o1, o2, o3))

            def pred_str(io, sc):
                o1, o2, o3 = sc.meta["o"]
                if o1.startswith("ok"):
                    return "finish(<str>) returned a key"
                if o2 != "raise:OnlyCallFinishOnce":
                    return "finish() after a failed finish(<str>): %s (the instance must be used up)" % o2[:60]
                if o3 != "raise:OnlyCallFinishOnce":
                    return "finish(<str>) after a completed finish(): %s, not OnlyCallFinishOnce" % o3[:60]
                return None
            sc.pred = pred_str
            out.append(sc)
    for ps in (w.ps["ed"], w.ps["1024"], w.ps.get("toyed389")):
        if ps is None:
            continue
        for side in "ABS":
            k = (25 if ps.kind == "ed" else 8) * (10 if big else 1)
            for _ in range(k):
                d = r.randrange(1, 8)
                add(ps, side, tuple(r.choice(HOPS) for _ in range(d)), "sampled-" + ps.name, x=r.choice([5, 5, 0, ps.q - 1]))
            for hist in itertools.product(HOPS, repeat=2):
                if ps.kind == "ed" and not ps.toy:
                    add(ps, side, hist, "exhaustive2-" + ps.name)
    return out


# ---------------------------------------------------------------------------------------
# C08 persist/restore transparency
# ---------------------------------------------------------------------------------------
def gen_C08(w, tier):
    r = w.rng
    out = []
    big = tier == "thorough"
    for name, ps in w.ps.items():
        if ps.base and ps.toy:
            continue
        reps = 12 if ps.kind == "ed" or ps.toy else 7
        if big:
            reps *= 3
        ident = identity_bytes(w, ps)
        edges = w.base_edges(ps)
        for i in range(reps):
            side = "ABS"[i % 3]
            pw, ids = w.password(), (r.choice(IDS), r.choice(IDS))
            x = edges[i] % ps.q if i < len(edges) else w.scalar(ps)      # every base edge scalar once, then random
            peer = peer_message(w, ps, side, w.scalar(ps, 0))
            sc = w.scenario("C08/%s/%d" % (name, i), ("set:" + ("toy" if ps.toy else name), "side:" + side))
            k = r.choice([1, 1, 2, 3])
            # one original and one restored copy per inbound message class
            o0 = None
            rec = []
            t = w.scenario("tw", ())
            tw = t.new(side, ps, pw, ids[0], ids[1], w.entropy_for(ps, x), NONE)
            own = payload(t.start(tw, NONE))
            peer_b = peer[:1]
            msgs = [("valid", peer), ("reflect", peer_b + own[1:]), ("own-side", (b"A" if side != "A" else b"A") + peer[1:] if side != "B" else b"B" + peer[1:]),
                    ("unknown-side", b"Q" + peer[1:]), ("empty", b""), ("garbage", peer_b + bytes(r.randrange(256) for _ in range(ps.esize))),
                    ("short", peer[:-1]), ("long", peer + b"\x00"), ("identity", peer_b + ident)]
            if not big and ps.kind == "int" and not ps.toy:
                msgs = msgs[:3] + msgs[5:6]
            for (mn, msg) in msgs:
                a = sc.new(side, ps, pw, ids[0], ids[1], w.entropy_for(ps, x, extra=b"\x07" * 9))
                sc.start(a)
                e0 = sc.do("entleft %d" % a)
                s1 = sc.do("ser %d" % a)
                s2 = sc.do("ser %d" % a)
                e1 = sc.do("entleft %d" % a)
                st0 = sc.do("state %d" % a)
                b = a
                sers = [s1]
                for _ in range(k):
                    b = sc.cycle(b, side, ps)
                    sers.append(sc.do("ser %d" % b))
                st1 = sc.do("state %d" % b)
                ka = sc.finish(a, msg)
                kb = sc.finish(b, msg)
                rec.append((mn, s1, s2, e0, e1, st0, st1, sers, ka, kb, b != a))
            sc.meta["rec"] = rec

            def pred(io, sc):
                for (mn, s1, s2, e0, e1, st0, st1, sers, ka, kb, restored) in sc.meta["rec"]:
                    if not s1.startswith("ok"):
                        return "serialize() failed: %s" % s1
                    if s1 != s2:
                        return "serialize() is not deterministic"
                    if e0 != e1:
                        return "serialize() consumed entropy"
                    data = payload(s1)
                    if any(c < 0x20 or c > 0x7e for c in data):
                        return "serialize() output is not printable ASCII"
                    try:
                        json.loads(data.decode("ascii"))
                    except Exception as e:
                        return "serialize() output is not JSON: %s" % e
                    if not restored:
                        return "from_serialized(serialize()) failed"
                    if st0.split()[1:] != st1.split()[1:]:
                        return "restored instance differs from the original (scalar/outbound/pw scalar): %s vs %s" % (st0, st1)
                    if any(json.loads(payload(s).decode()) != json.loads(data.decode()) for s in sers if s.startswith("ok")) or not all(s.startswith("ok") for s in sers):
                        return "re-serialised data is not equivalent"
                    if ka != kb:
                        return "message class %s: original -> %s, restored -> %s" % (mn, ka, kb)
                return None
            sc.pred = pred
            out.append(sc)
    return out


# ---------------------------------------------------------------------------------------
# C09 wrong role / parameters on restore
# ---------------------------------------------------------------------------------------
def gen_C09(w, tier):
    r = w.rng
    out = []
    big = tier == "thorough"
    keys = [k for k in w.ps if not w.ps[k].toy] + [k for k in w.ps if w.ps[k].toy and k.startswith(("toy23_11", "toy47"))] + [k for k in w.ps if w.ps[k].toy and w.ps[k].kind == "ed"]
    for ka_ in keys:
        psA = w.ps[ka_]
        for side in "ABS":
            sc = w.scenario("C09/%s/%s" % (ka_, side), ("saved:" + side, "set:" + ("toy" if psA.toy else ka_)))
            pw, ids = w.password(), (r.choice(IDS), r.choice(IDS))
            x = w.scalar(psA)
            a = sc.new(side, psA, pw, ids[0], ids[1], w.entropy_for(psA, x))
            m0 = sc.start(a)
            data = payload(sc.do("ser %d" % a))
            peer = peer_message(w, psA, side, 3)
            rec = []
            if data is None:
                continue
            for kb_ in keys:
                psB = w.ps[kb_]
                if not big and psB.kind == "int" and not psB.toy and psA.kind == "int" and not psA.toy and ka_ != kb_ and r.random() < 0.5:
                    continue
                for side2 in "ABS":
                    n_ = w.sid()
                    o = sc.do("restore %d %s %d %s" % (n_, side2, psB.pid, hx(data)))
                    if o != "ok":
                        # a refusal must be stable: the same attempt again must not go through
                        o_again = sc.do("restore %d %s %d %s" % (n_, side2, psB.pid, hx(data)))
                        if o_again == "ok":
                            o = "ok"
                    st = fin = None
                    if o == "ok":
                        st = sc.do("state %d" % n_)
                        # must behave exactly like the original: same outbound message, same key
                        orig = sc.cycle(a, side, psA)
                        fo = sc.finish(orig, peer)
                        fin = (fo, sc.finish(n_, peer))
                    rec.append((kb_, side2, o, st, fin))
            sc.meta.update(rec=rec, side=side, ka=ka_, m0=m0, toyA=psA.toy)

            def pred(io, sc):
                m = sc.meta
                for (kb_, side2, o, st, fin) in m["rec"]:
                    same_params = kb_ == m["ka"]
                    psA, psB = sc.w.ps[m["ka"]], sc.w.ps[kb_]
                    uses = {"A": "MN", "B": "MN", "S": "S"}[m["side"]]
                    # parameters that differ in the group or in a blinding element this role uses
                    differs = (psA.gid != psB.gid) or any(sd in uses for sd in _diff_seeds(psA, psB))
                    if side2 != m["side"]:
                        if o == "ok":
                            return "state saved by %s restored as %s" % (m["side"], side2)
                        if m["side"] in "AB" and side2 in "AB" and o != "raise:WrongSideSerialized" and not differs:
                            return "A/B state restored as the other role raised %s" % o
                        if m["side"] in "AB" and side2 == "S" and o != "raise:WrongSideSerialized":
                            return "A/B state restored as Symmetric raised %s" % o
                        continue
                    if o == "ok":
                        if st.split()[2] != payload(m["m0"])[1:].hex() or fin[0] != fin[1]:
                            if _only_generator_differs(psA, psB, uses):
                                return ("known", "K2", "state restored under a group with another generator: %s -> %s" % (m["ka"], kb_))
                            return "restored instance (%s -> %s) does not reproduce the original message/key" % (m["ka"], kb_)
                        if differs:
                            if _only_generator_differs(psA, psB, uses):
                                return ("known", "K2", "state restored under a group with another generator: %s -> %s" % (m["ka"], kb_))
                            return "restore succeeded under differing parameters %s -> %s" % (m["ka"], kb_)
                    else:
                        if same_params:
                            return "restore under the same role and parameters failed: %s" % o
                        if differs and o != "raise:WrongGroupError" and not (m["toyA"] or psB.toy):
                            return "parameter mismatch %s -> %s raised %s, not WrongGroupError" % (m["ka"], kb_, o)
                return None
            sc.pred = pred
            out.append(sc)
    return out


def gen_C09_lifetimes(w, tier):
    """parameter-set objects that are created, used, dropped and re-created (possibly at the same address):
    a restore under the new object must be judged against the NEW object's elements"""
    out = []
    r = w.rng
    gid = w.groups["ed"]
    pid = w.next_pid + 500
    for rep in range(6 if tier == "quick" else 40):
        for side in "ABS":
            sc = w.scenario("C09/lifetimes/%s/%d" % (side, rep), ("params-lifetime", "saved:" + side))
            seeds1 = (b"M-%d" % rep, b"N-%d" % rep, b"S-%d" % rep)
            sc.do("params %d %d %s %s %s" % (pid, gid, hx(seeds1[0]), hx(seeds1[1]), hx(seeds1[2])))
            a = w.sid()
            sc.do("new %d %s %d %s %s %s %s" % (a, side, pid, hx(b"pw"), hx(b"a"), hx(b"b"), hx(w.entropy_for(w.ps["ed"], 5 + rep))))
            sc.do("start %d" % a)
            data = payload(sc.do("ser %d" % a))
            ok1 = sc.do("restore %d %s %d %s" % (w.sid(), side, pid, hx(data or b"")))
            which = "MNS".index("M" if side == "A" else "N" if side == "B" else "S")
            seeds2 = list(seeds1)
            seeds2[which] = b"other-%d" % rep
            sc.do("reparams %d %d %s %s %s" % (pid, gid, hx(seeds2[0]), hx(seeds2[1]), hx(seeds2[2])))
            o = sc.do("restore %d %s %d %s" % (w.sid(), side, pid, hx(data or b"")))
            o2 = sc.do("restore %d %s %d %s" % (w.sid(), side, pid, hx(data or b"")))
            sc.do("unparams %d" % pid)
            sc.meta.update(o=(ok1, o, o2))

            def pred(io, sc):
                ok1, o, o2 = sc.meta["o"]
                if ok1 != "ok":
                    return "restore under the saving parameters failed: %s" % ok1
                for x in (o, o2):
                    if x != "raise:WrongGroupError":
                        return "restore under a re-created parameter set with another blinding element: %s" % x
                return None
            sc.pred = pred
            out.append(sc)
    return out


def _diff_seeds(a, b):
    sa = a.seeds or (b"M", b"N", b"symmetric")
    sb = b.seeds or (b"M", b"N", b"symmetric")
    return [n for n, x, y in zip("MNS", sa, sb) if x != y]


def _only_generator_differs(a, b, uses="MNS"):
    return bool(a.pqg and b.pqg and a.pqg[:2] == b.pqg[:2] and a.pqg[2] != b.pqg[2]
                and all(sd not in uses for sd in _diff_seeds(a, b)))


# ---------------------------------------------------------------------------------------
# C10 persisted format stability (the Lean model is the independent encoder)
# ---------------------------------------------------------------------------------------
def gen_C10(w, tier):
    r = w.rng
    out = []
    big = tier == "thorough"
    # phase 1: sessions started on the implementation; `ser` compared byte-exactly with the model
    cases = []
    for name, ps in w.ps.items():
        if ps.base and ps.toy:
            continue
        reps = (8 if ps.kind == "ed" or ps.toy else 3) * (8 if big else 1)
        edges = w.base_edges(ps)
        for i in range(max(reps, len(edges))):
            side = "ABS"[i % 3]
            pw, ids = w.password(), (r.choice(IDS), r.choice(IDS))
            x = edges[i] % ps.q if i < len(edges) else w.scalar(ps)
            sc = w.scenario("C10/%s/%d" % (name, i), ("set:" + ("toy" if ps.toy else name), "side:" + side))
            a = sc.new(side, ps, pw, ids[0], ids[1], w.entropy_for(ps, x))
            m = sc.start(a)
            s = sc.do("ser %d" % a)
            cases.append((sc, ps, side, pw, ids, x, a, m, s))
    # ask the model for ITS serialisation of the same sessions (independent encoder)
    lines = list(w.prelude)
    idx = []
    for (sc, ps, side, pw, ids, x, a, m, s) in cases:
        lines += sc.lines
        idx.append(len(lines) - 1)
    try:
        mo = engine.run_model(lines)
    except Exception:
        mo = None
    for n, (sc, ps, side, pw, ids, x, a, m, s) in enumerate(cases):
        model_ser = payload(mo[idx[n]]) if mo and mo[idx[n]].startswith("ok") else None
        impl_ser = payload(s)
        peer = peer_message(w, ps, side, 3)
        rec = []
        variants = []
        if model_ser:
            d = json.loads(model_ser.decode("ascii"))
            items = list(d.items())
            variants.append(("model", model_ser))
            r.shuffle(items)
            variants.append(("model-reordered", json.dumps(dict(items)).encode()))
            variants.append(("model-compact", json.dumps(dict(items), separators=(",", ":")).encode()))
            variants.append(("model-whitespace", (" \n\t" + json.dumps(dict(items), indent=3) + "\r\n ").encode()))
        if impl_ser:
            d = json.loads(impl_ser.decode("ascii"))
            items = list(d.items())
            items.reverse()
            variants.append(("impl-reversed", json.dumps(dict(items), separators=(" ,\n", "  :\t")).encode()))
            up = dict(d)
            up["xy_scalar"] = up["xy_scalar"].upper()
            up["password"] = up["password"].upper()
            variants.append(("impl-uppercase-hex", json.dumps(up).encode()))
        orig = sc.finish(a, peer)
        s_after = sc.do("ser %d" % a)          # the state object describes the same session before and after finish()
        sc.meta["s_after"] = s_after
        for (vn, data) in variants:
            n_ = w.sid()
            o = sc.do("restore %d %s %d %s" % (n_, side, ps.pid, hx(data)))
            st = sc.do("state %d" % n_) if o == "ok" else None
            k = sc.finish(n_, peer) if o == "ok" else None
            rec.append((vn, o, st, k))
        sc.meta.update(rec=rec, orig=orig, m=m, s=s, side=side, pw=pw, ids=ids, x=x, ps=(ps.kind, ps.ssize))

        def pred(io, sc):
            mt = sc.meta
            data = payload(mt["s"])
            if data is None:
                return "serialize() failed: %s" % mt["s"]
            try:
                d = json.loads(data.decode("ascii"))
            except Exception as e:
                return "not ASCII JSON: %s" % e
            side = mt["side"]
            want = {"hashed_params", "side", "password", "xy_scalar"} | ({"idS"} if side == "S" else {"idA", "idB"})
            if set(d) != want:
                return "field set %s, released format %s" % (sorted(d), sorted(want))
            if d["side"] != side or d["password"] != mt["pw"].hex():
                return "side/password field wrong"
            if side == "S":
                if d["idS"] != mt["ids"][0].hex():
                    return "idS field wrong"
            elif d["idA"] != mt["ids"][0].hex() or d["idB"] != mt["ids"][1].hex():
                return "idA/idB field wrong"
            kind, ssize = mt["ps"]
            sb = bytes.fromhex(d["xy_scalar"])
            if len(sb) != ssize or int.from_bytes(sb, "little" if kind == "ed" else "big") != mt["x"]:
                return "xy_scalar is not the fixed-width scalar encoding"
            if len(d["hashed_params"]) != 64:
                return "hashed_params is not a SHA-256 hex digest"
            if mt.get("s_after") != mt["s"]:
                return "serialize() after finish() no longer describes the session (differs from the state before finish())"
            for (vn, o, st, k) in mt["rec"]:
                if o != "ok":
                    return "released-format state (%s) refused: %s" % (vn, o)
                if st.split()[2] != payload(mt["m"])[1:].hex():
                    return "state (%s) resumed a different session" % vn
                if k != mt["orig"]:
                    return "state (%s) finished to %s, original %s" % (vn, k, mt["orig"])
            return None
        sc.pred = pred
        out.append(sc)
    # malformed / unusual state blobs: the model's parser and the real json/binascii must agree on what is refused
    # (separate stream, so that the mostly-valid stream above is not drowned in error handling)
    for (sc0, ps, side, pw, ids, x, a, m, s_) in cases[:: (3 if not big else 1)]:
        data = payload(s_)
        if data is None:
            continue
        d = json.loads(data.decode("ascii"))
        sc = w.scenario("C10/malformed/%s" % sc0.name, ("malformed",))
        blobs = []
        for k in list(d):
            e = dict(d); del e[k]; blobs.append(("drop-" + k, json.dumps(e).encode()))
            e = dict(d); e[k] = ""; blobs.append(("empty-" + k, json.dumps(e).encode()))
            e = dict(d); e[k] = d[k] + "0"; blobs.append(("odd-" + k, json.dumps(e).encode()))
            e = dict(d); e[k] = "zz" + d[k][2:]; blobs.append(("nonhex-" + k, json.dumps(e).encode()))
        e = dict(d); e["extra"] = "00"; blobs.append(("extra-key", json.dumps(e).encode()))
        blobs.append(("dup-key-last-wins", (data[:-1] + b', "password": "' + d["password"].encode() + b'"}')))
        blobs.append(("dup-key-other", (data[:-1] + b', "password": "00"}')))
        for cut in sorted(set([0, 1, 2, len(data) // 2, len(data) - 1] + [r.randrange(len(data)) for _ in range(4)])):
            blobs.append(("truncated", data[:cut]))
        blobs += [("single-quotes", data.replace(b'"', b"'")), ("non-ascii", data[:5] + b"\xc3\xa9" + data[5:]),
                  ("trailing-garbage", data + b"x"), ("trailing-ws", data + b" \n"), ("leading-ws", b"\t " + data),
                  ("empty", b""), ("not-object", b'"abc"'), ("nul", data[:3] + b"\x00" + data[3:])]
        rec = []
        for (nm, blob) in blobs:
            n_ = w.sid()
            o = sc.do("restore %d %s %d %s" % (n_, side, ps.pid, hx(blob)))
            rec.append((nm, o))
        sc.meta["rec"] = rec

        def pred_m(io, sc):
            for (nm, o) in sc.meta["rec"]:
                if (nm.startswith(("drop-", "odd-", "nonhex-", "single", "non-ascii", "trailing-garbage", "not-object", "nul")) or nm == "empty") and o == "ok":
                    return "from_serialized accepted a malformed blob (%s)" % nm
            return None
        sc.pred = pred_m
        out.append(sc)
    return out


# ---------------------------------------------------------------------------------------
# C16 purity and isolation under interleavings
# ---------------------------------------------------------------------------------------
def fingerprint(w):
    """deep fingerprint of the shared parameter-set and group objects of the implementation"""
    import hashlib
    h = hashlib.sha256()

    def walk(o, depth=0, seen=None):
        seen = seen if seen is not None else set()
        if id(o) in seen or depth > 6:
            return
        seen.add(id(o))
        if isinstance(o, (int, bytes, str, bool, type(None), float)):
            h.update(repr(o).encode())
        elif isinstance(o, (list, tuple)):
            h.update(b"[")
            for x in o:
                walk(x, depth + 1, seen)
        elif isinstance(o, dict):
            for k in sorted(o, key=repr):
                h.update(repr(k).encode())
                walk(o[k], depth + 1, seen)
        elif hasattr(o, "__dict__"):
            h.update(type(o).__name__.encode())
            walk(vars(o), depth + 1, seen)
    for pid in sorted(w.im.params):
        walk(w.im.params[pid])
    for gid in sorted(w.im.groups):
        walk(w.im.groups[gid])
    import spake2.ed25519_basic as edb, spake2.groups as gr, spake2.spake2 as spm, spake2.params as pm
    for mod in (edb, gr, spm, pm):
        for k in sorted(vars(mod)):
            v = vars(mod)[k]
            if k.startswith("__") or callable(v) or isinstance(v, type(edb)):
                continue
            h.update(k.encode())
            walk(v)
    return h.hexdigest()


def session_script(w, r, ps, side, peer_of=None):
    """per-session op sequence templates: list of op names"""
    ops = ["start"]
    for _ in range(r.choice([0, 1, 1, 2])):
        ops.append(r.choice(["ser", "restore"]))
    ops.append("finish")
    if r.random() < 0.3:
        ops.append(r.choice(["start", "finish", "ser"]))
    return ops


def gen_C16(w, tier):
    r = w.rng
    out = []
    big = tier == "thorough"
    sets = [w.ps["ed"], w.ps["1024"]] + [p for p in w.ps.values() if p.toy and not p.base][:3]
    n_groups = 30 if not big else 100
    for gi in range(n_groups):
        npairs = r.choice([1, 1, 2]) if not big else r.choice([1, 2, 2, 3])
        # sessions: pairs (a, b) that exchange messages, mixed roles / passwords / parameter sets
        sess = []
        for _ in range(npairs):
            ps = r.choice(sets)
            sym = r.random() < 0.4
            pw = w.password()
            ids = (r.choice(IDS), r.choice(IDS))
            x, y = w.scalar(ps), w.scalar(ps)
            sa, sb = ("S", "S") if sym else ("A", "B")
            # the same entropy bytes in every run of this session, sometimes with rejected first draws
            sess.append(dict(ps=ps, side=sa, pw=pw, ids=ids, x=x, ops=session_script(w, r, ps, sa),
                             ent=w.entropy_for(ps, x, redraws=r.choice([0, 0, 1, 2]))))
            sess.append(dict(ps=ps, side=sb, pw=pw, ids=ids, x=y, ops=session_script(w, r, ps, sb),
                             ent=w.entropy_for(ps, y, redraws=r.choice([0, 1]))))
        # a clone of the first pair (same inputs, same entropy, hence the same messages) one end of which receives the
        # peer's element in a spelling the decoder must refuse: whether it is refused must not depend on whether
        # another session has already accepted the canonical spelling of the same element
        if gi % 2 == 0:
            a0, b0 = dict(sess[0]), dict(sess[1])
            kind = gi // 2 % 4
            if a0["ps"].kind == "ed":
                a0["mangle"] = [lambda m: m + b"\x00", lambda m: m + m[1:], lambda m: m[:-1], lambda m: m + b"\x00"][kind]
            else:
                a0["mangle"] = [lambda m: m[:1] + b"\x00" + m[1:], lambda m: m[:1] + (m[1:].lstrip(b"\x00") if m[1:2] == b"\x00" else m[1:] + b"\x00"),
                                lambda m: m + b"\x00", lambda m: m[:-1]][kind]
            a0["ops"] = ["start", "finish"]
            b0["ops"] = ["start"]
            sess += [a0, b0]
        fp0 = fingerprint(w)

        def run(order, name, tags):
            """order: list of session indexes, one entry per op; finish needs the peer's message"""
            sc = w.scenario(name, tags)
            sid = [sc.new(s["side"], s["ps"], s["pw"], s["ids"][0], s["ids"][1], s["ent"]) for s in sess]
            pos = [0] * len(sess)
            msg = [None] * len(sess)
            outs = [[] for _ in sess]
            pending = list(order)
            guard = 0
            while pending and guard < 10000:
                guard += 1
                i = pending.pop(0)
                s = sess[i]
                if pos[i] >= len(s["ops"]):
                    continue
                op = s["ops"][pos[i]]
                peer = i ^ 1
                if op == "finish" and msg[peer] is None:
                    if any(j != i for j in pending):
                        pending.append(i)          # message not available yet: try later
                        continue
                    break
                pos[i] += 1
                if op == "start":
                    o = sc.start(sid[i])
                    if msg[i] is None and o.startswith("ok"):
                        msg[i] = payload(o)
                elif op == "finish":
                    o = sc.finish(sid[i], s["mangle"](msg[peer]) if "mangle" in s else msg[peer])
                elif op == "ser":
                    o = sc.do("ser %d" % sid[i])
                else:
                    o = sc.do("ser %d" % sid[i])
                    if o.startswith("ok"):
                        n_ = w.sid()
                        if sc.do("restore %d %s %d %s" % (n_, s["side"], s["ps"].pid, hx(payload(o)))) == "ok":
                            sid[i] = n_
                outs[i].append((op, o))
            sc.meta["outs"] = outs
            return sc
        total = [i for i, s in enumerate(sess) for _ in s["ops"]]
        # reference: each pair run alone, sequentially
        # (the clone that receives the refused spelling runs first in the reference, before anything in this process
        # has seen the canonical spelling)
        ref = run(sorted(total, key=lambda i: (0 if ("mangle" in sess[i] or "mangle" in sess[i ^ 1]) else 1, i // 2)), "C16/%d/ref" % gi, ("reference",))
        out.append(ref)
        orders = []
        if len(total) <= 8 and not big:
            perms = set(itertools.permutations(total))
            orders = r.sample(sorted(perms), min(len(perms), 40))
        else:
            for _ in range(25 if not big else 60):
                o_ = list(total)
                r.shuffle(o_)
                orders.append(tuple(o_))
        for k, order in enumerate(orders):
            sc = run(list(order), "C16/%d/%d" % (gi, k), ("interleaving", "sessions:%d" % len(sess)))
            sc.meta.update(ref=ref.meta["outs"], fp0=fp0, fp1=fingerprint(w))

            def pred(io, sc):
                for i, (a, b) in enumerate(zip(sc.meta["outs"], sc.meta["ref"])):
                    if a != b:
                        for (x, y) in zip(a, b):
                            if x != y:
                                return "session %d: output under this interleaving %s, alone %s" % (i, x, y)
                        return "session %d: different number of completed calls (%d vs %d)" % (i, len(a), len(b))
                if sc.meta["fp0"] != sc.meta["fp1"]:
                    return "shared parameter-set / group objects were modified by running sessions"
                return None
            sc.pred = pred
            out.append(sc)
    if big:
        out.append(threads_scenario(w, r))
    return out


def threads_scenario(w, r):
    """16 threads running complete exchanges on the shared parameter objects (supporting evidence
    for the multi-threaded part of C16; a test, not a proof)"""
    import threading
    from spake2 import spake2 as sp
    sc = w.scenario("C16/threads", ("threads",))
    sc.do("g.sizes %d" % w.ps["ed"].gid)
    jobs = []
    for t in range(16):
        ps = w.ps["ed"] if t % 2 else w.ps["1024"]
        jobs.append((ps, b"pw%d" % (t % 5), w.scalar(ps), w.scalar(ps)))
    from impl import Entropy

    def one(ps, pw, x, y):
        P = w.im.params[ps.pid]
        a = sp.SPAKE2_A(pw, params=P, entropy_f=Entropy(w.entropy_for(ps, x)))
        b = sp.SPAKE2_B(pw, params=P, entropy_f=Entropy(w.entropy_for(ps, y)))
        ma, mb = a.start(), b.start()
        a2 = sp.SPAKE2_A.from_serialized(a.serialize(), params=P)
        return (ma, mb, a2.finish(mb), b.finish(ma))
    ref = [one(*j) for j in jobs]
    res = [None] * len(jobs)
    fp0 = fingerprint(w)

    def work(i):
        for _ in range(3):
            res[i] = one(*jobs[i])
    ths = [threading.Thread(target=work, args=(i,)) for i in range(len(jobs))]
    for t in ths:
        t.start()
    for t in ths:
        t.join()
    bad = [i for i in range(len(jobs)) if res[i] != ref[i]]
    fp1 = fingerprint(w)
    sc.meta.update(bad=bad, fp=(fp0, fp1))
    sc.pred = lambda io, sc: ("threaded run differs from sequential run for jobs %s" % sc.meta["bad"]) if sc.meta["bad"] else (
        "shared objects modified by threaded run" if sc.meta["fp"][0] != sc.meta["fp"][1] else None)
    return sc
