"""Scenario generators for C11 (unbiased sampling, entropy only from entropy_f) and C17 (transcript hash)."""
import hashlib, os
from world import *


def gen_C11(w, tier):
    r = w.rng
    out = []
    big = tier == "thorough"
    # --- unbiased_randrange: complete enumeration of the byte inputs for small widths ----------
    # one draw: every nb-byte input; value counts must be equal for all values of the range
    widths1 = list(range(1, 257))                         # nb = 1 (maxval <= 255) and maxval = 256 (nb = 2)
    widths2 = sorted(set([256, 257, 300, 511, 512, 513, 1000, 4095, 4096, 4097, 65535, 65536] + [r.randrange(257, 65536) for _ in range(4 if not big else 40)]))
    sc = w.scenario("C11/randrange-1byte", ("exhaustive nb=1",))
    rec = []
    for maxval in widths1[:255]:
        start = r.choice([0, 0, 1, -5, 1000])
        idx = []
        for b in range(256):
            idx.append(len(sc.lines))
            sc.do("randrange %d %d %02x" % (start, start + maxval, b))
        rec.append((start, maxval, 1, idx, None))
    sc.meta["rec"] = rec
    sc.pred = pred_randrange
    out.append(sc)
    sc = w.scenario("C11/randrange-2byte", ("exhaustive nb=2",))
    rec = []
    for maxval in widths2:
        if maxval > 65535:        # 2^16 and above need three bytes per draw
            continue
        start = r.choice([0, 7, -300])
        idx = []
        step = 1 if big or maxval in (256, 257, 65535, 65536) else 1
        inputs = range(0, 65536, step)
        if not big and maxval not in (256, 65535):
            inputs = sorted(r.sample(range(65536), 3000))
            full = False
        else:
            full = True
        for v in inputs:
            idx.append(len(sc.lines))
            sc.do("randrange %d %d %04x" % (start, start + maxval, v))
        rec.append((start, maxval, 2, idx, None if full else list(inputs)))
    sc.meta["rec"] = rec
    sc.pred = pred_randrange
    out.append(sc)
    # multi-draw streams: forced re-draws, exhaustion, exact consumption
    sc = w.scenario("C11/randrange-streams", ("redraws",))
    rec2 = []
    for _ in range(200 if not big else 3000):
        maxval = r.choice([1, 2, 3, 5, 11, 128, 129, 255, 256, 257, 1000, 65535, 65536, 65537, 2 ** 20 + 7, 2 ** 64 - 3])
        nb = (max(maxval.bit_length(), 1) + 7) // 8
        n = r.randrange(0, 5)
        stream = bytes(r.randrange(256) for _ in range(nb * n + r.randrange(0, nb)))
        if r.random() < 0.3:
            stream = b"\xff" * (nb * r.randrange(0, 3)) + stream
        i = len(sc.lines)
        sc.do("randrange %d %d %s" % (3, 3 + maxval, hx(stream)))
        rec2.append((i, 3, maxval, stream))
    # very long runs of rejected draws (an RNG that returns 0xff while warming up): no bound on the number of draws
    for maxval, nrej in ((3, 300), (200, 300), (257, 400), (65535 - 7, 120), (2 ** 160 - 5, 260), (2 ** 256 - 189, 330)):
        nb = (max(maxval.bit_length(), 1) + 7) // 8
        good = (maxval - 1).to_bytes(nb, "big")
        stream = b"\xff" * (nb * nrej) + good
        i = len(sc.lines)
        sc.do("randrange %d %d %s" % (3, 3 + maxval, hx(stream)))
        rec2.append((i, 3, maxval, stream))
    sc.meta["rec2"] = rec2

    def pred_streams(io, sc):
        for (i, start, maxval, stream) in sc.meta["rec2"]:
            bits = max(maxval.bit_length(), 1)
            nb = (bits + 7) // 8
            mask = (1 << (bits - 8 * (nb - 1))) - 1 if bits % 8 else 0xff
            pos, want = 0, None
            while pos + nb <= len(stream):
                ch = stream[pos:pos + nb]
                pos += nb
                c = int.from_bytes(bytes([ch[0] & mask]) + ch[1:], "big")
                if c < maxval:
                    want = "ok %d %d" % (start + c, pos)
                    break
            if want is None:
                if io[i].startswith("ok"):
                    return "randrange returned a value although no draw qualified"
            elif io[i] != want:
                return "randrange(%d,%d) on %s: %s, specification %s" % (start, start + maxval, hx(stream), io[i], want)
        return None
    sc.pred = pred_streams
    out.append(sc)
    # --- group samplers: edge streams ------------------------------------------------------------
    sc = w.scenario("C11/random_scalar", ("group samplers",))
    rec3 = []
    for name in ("ed", "1024", "2048", "3072"):
        ps = w.ps[name]
        q = ps.q
        if ps.kind == "ed":
            streams = [b"\x00" * 64, b"\xff" * 64, q.to_bytes(64, "big"), (q - 1).to_bytes(64, "big"), (q + 1).to_bytes(64, "big"),
                       (2 ** 512 - 1 - q).to_bytes(64, "big"), b"\x00" * 63, b"\x01" * 65] + [bytes(r.randrange(256) for _ in range(64)) for _ in range(5)]
        else:
            nb = ps.ssize
            streams = [b"\x00" * nb, b"\xff" * nb, q.to_bytes(nb, "big"), (q - 1).to_bytes(nb, "big"), (q + 1).to_bytes(nb, "big") + (5).to_bytes(nb, "big"),
                       b"\xff" * (3 * nb) + (7).to_bytes(nb, "big"), b"\xff" * (330 * nb) + (9).to_bytes(nb, "big"),
                       b"\xff" * nb + b"\x00" * (nb - 1), b""] + [bytes(r.randrange(256) for _ in range(2 * nb)) for _ in range(5)]
        for st in streams:
            i = len(sc.lines)
            sc.do("g.rand %d %s" % (ps.gid, hx(st)))
            rec3.append((i, ps.kind, q, ps.ssize, st))
    sc.meta["rec3"] = rec3

    def pred_rs(io, sc):
        for (i, kind, q, nb, st) in sc.meta["rec3"]:
            o = io[i]
            if kind == "ed":
                if len(st) >= 64:
                    want = "ok %d 64" % (int.from_bytes(st[:64], "big") % q)
                    if o != want:
                        return "Ed25519 random_scalar: %s, specification %s" % (o, want)
                elif o.startswith("ok"):
                    return "Ed25519 random_scalar returned with fewer than 64 bytes of entropy"
            else:
                bits = q.bit_length()
                mask = (1 << (bits - 8 * (nb - 1))) - 1 if bits % 8 else 0xff
                pos, want = 0, None
                while pos + nb <= len(st):
                    ch = st[pos:pos + nb]
                    pos += nb
                    c = int.from_bytes(bytes([ch[0] & mask]) + ch[1:], "big")
                    if c < q:
                        want = "ok %d %d" % (c, pos)
                        break
                if want is None:
                    if o.startswith("ok"):
                        return "integer random_scalar returned although no draw qualified"
                elif o != want:
                    return "integer random_scalar: %s, specification %s" % (o[:80], want[:80])
        return None
    sc.pred = pred_rs
    out.append(sc)
    # --- entropy only from entropy_f, only in start() ------------------------------------------------
    import random as _random, secrets as _secrets
    sc = w.scenario("C11/entropy-discipline", ("entropy discipline",))

    class Boom(Exception):
        pass

    def boom(*a, **k):
        raise Boom("ambient entropy source used")
    saved = (os.urandom, _random.getrandbits, _random.random, _secrets.token_bytes, _random.SystemRandom.getrandbits)
    os.urandom = boom; _random.getrandbits = boom; _random.random = boom; _secrets.token_bytes = boom
    rec4 = []
    try:
        for name in ("ed", "1024", "toy2039_1019_4"):
            ps = w.ps.get(name)
            if ps is None:
                continue
            for side, x in [(sd, xv) for sd in "ABS" for xv in (0, 1, ps.q - 1, w.scalar(ps, 0))]:
                ent = w.entropy_for(ps, x, redraws=(2 if ps.kind == "int" else 0), extra=b"\xaa" * 40)
                if x == 1:
                    a = w.sid()          # an entropy callable that is falsy must still be the one that is used
                    sc.do("newfalsy %d %s %d %s - - %s" % (a, side, ps.pid, hx(b"pw"), hx(ent)))
                else:
                    a = sc.new(side, ps, b"pw", b"", b"", ent)
                r0 = sc.do("entreq %d" % a, NONE)
                sc.start(a)
                r1 = sc.do("entreq %d" % a, NONE)
                l1 = sc.do("entleft %d" % a)
                sc.do("ser %d" % a)
                b = sc.cycle(a, side, ps)
                st_a, st_b = sc.do("state %d" % a), sc.do("state %d" % b)
                peer = None
                t = w.scenario("p", ())
                p_ = t.new({"A": "B", "B": "A", "S": "S"}[side], ps, b"pw", b"", b"", w.entropy_for(ps, 3), NONE)
                peer = payload(t.start(p_, NONE))
                sc.finish(a, peer)
                fb = sc.finish(b, peer)
                r2 = sc.do("entreq %d" % a, NONE)
                l2 = sc.do("entleft %d" % a)
                rec4.append((ps.kind, ps.ssize, r0, r1, r2, l1, l2, fb, st_a, st_b))
    finally:
        os.urandom, _random.getrandbits, _random.random, _secrets.token_bytes = saved[:4]
    sc.meta["rec4"] = rec4

    def pred_ent(io, sc):
        for o in io:
            if "Boom" in o:
                return "an ambient entropy source (os.urandom / random / secrets) was used"
        for (kind, nb, r0, r1, r2, l1, l2, fb, st_a, st_b) in sc.meta["rec4"]:
            if st_a.split()[1:] != st_b.split()[1:]:
                return "the restored instance's secret scalar / message does not come from the saved state (fresh entropy drawn on restore?): %s vs %s" % (st_a[:90], st_b[:90])
            if r0 != "ok -":
                return "the constructor drew entropy: %s" % r0
            want = "ok 64" if kind == "ed" else "ok " + ",".join([str(nb)] * 3)
            if r1 != want:
                return "start() requested %s from entropy_f, specification %s" % (r1, want)
            if r2 != r1 or l1 != l2:
                return "finish()/serialize()/from_serialized() drew entropy"
            if not fb.startswith("ok"):
                return "restored instance failed to finish: %s" % fb
        return None
    sc.pred = pred_ent
    out.append(sc)
    return out


def pred_randrange(io, sc):
    for (start, maxval, nb, idx, inputs) in sc.meta["rec"]:
        counts = {}
        for k, i in enumerate(idx):
            o = io[i]
            if o.startswith("ok"):
                v = int(o.split()[1])
                if not (start <= v < start + maxval):
                    return "unbiased_randrange(%d,%d) returned %d" % (start, start + maxval, v)
                if int(o.split()[2]) != nb:
                    return "first draw consumed %s bytes, not %d" % (o.split()[2], nb)
                counts[v] = counts.get(v, 0) + 1
        if inputs is None:
            # complete enumeration of the first draw: every value exactly the same number of inputs,
            # and at least half of the inputs accepted
            bits = max(maxval.bit_length(), 1)
            per = 256 ** nb >> bits
            if len(counts) != maxval or set(counts.values()) != {per}:
                return "unbiased_randrange width %d: value counts over all %d-byte inputs are not all %d" % (maxval, nb, per)
            if 2 * sum(counts.values()) < 256 ** nb:
                return "fewer than half of the draws are accepted for width %d" % maxval
    return None


def gen_C17(w, tier):
    r = w.rng
    out = []
    big = tier == "thorough"
    sc = w.scenario("C17/finalize", ("tuples",))
    rec = []
    H = lambda b: hashlib.sha256(b).digest()

    def rb(n=None):
        n = r.choice([0, 0, 1, 2, 5, 31, 32, 33, 64, 65, 128]) if n is None else n
        return bytes(r.randrange(256) for _ in range(n))
    tuples = [(b"", b"", b"", b"", b"", b""), (b"ab", b"c", b"X" * 32, b"Y" * 32, b"K" * 32, b"pw"), (b"a", b"bc", b"X" * 32, b"Y" * 32, b"K" * 32, b"pw")]
    for _ in range(150 if not big else 3000):
        w_ = r.choice([32, 32, 128, 256, 384, 1])
        tuples.append((rb(), rb(), rb(w_), rb(w_), rb(w_), rb()))
    for n_ in (65535, 65536, 65537, 131072 + 5):     # around and above 64 KiB (chunked hashing, length fields)
        big_ = bytes((i * 7 + n_) % 251 for i in range(n_))
        tuples.append((b"a", b"b", b"X" * 32, b"Y" * 32, b"K" * 32, big_))
        tuples.append((big_, big_[:-1], b"X" * 32, b"Y" * 32, b"K" * 32, b"pw"))
        tuples.append((b"a", big_[:-1] + b"\x00", b"X" * 32, b"Y" * 32, b"K" * 32, b"pw"))
    for _ in range(30 if not big else 300):          # prefixes / suffixes of one another
        a = rb(20)
        tuples.append((a[:5], a[5:], a[:10], a[10:], a, a[:3]))
    # field boundaries moved across a separator-like byte string (every short literal of the source, and the usual
    # separators): consecutive calls whose (pw, idA, idB) agree once joined with that separator must still be
    # computed independently of one another and from the three fields separately
    seps = [b":", b"|", b",", b"/", b";", b".", b"-", b"_", b" ", b"\x00", b"\n", b"=", b"&", b"+", b"::", b"\x00\x00"]
    seps += [b_ for b_ in HARVEST_BYTES if 0 < len(b_) <= 3 and b_ not in seps][:12]
    for sep in seps:
        X_, Y_, K_ = rb(32), rb(32), rb(32)
        tuples.append((b"alice" + sep + b"x", b"bob", X_, Y_, K_, b"pw"))
        tuples.append((b"alice", b"x" + sep + b"bob", X_, Y_, K_, b"pw"))
        tuples.append((b"x", b"bob", X_, Y_, K_, b"pw" + sep + b"alice"))
        tuples.append((b"alice" + sep + b"x", b"bob", X_, Y_, K_, b"pw"))
        tuples.append((b"", b"alice" + sep + b"x" + sep + b"bob", X_, Y_, K_, b"pw"))
        tuples.append((b"alice" + sep + b"x" + sep + b"bob", b"", X_, Y_, K_, b"pw"))
    for t in tuples:
        i = len(sc.lines)
        sc.do("final %s" % " ".join(hx(x) for x in t))
        idA, idB, X, Y, K, pw = t
        rec.append((i, "ok " + hx(H(H(pw) + H(idA) + H(idB) + X + Y + K)), "final"))
        # single-argument changes
        for pos in range(6):
            t2 = list(t)
            t2[pos] = (bytes([t2[pos][0] ^ 1]) + t2[pos][1:]) if t2[pos] else b"\x00"
            if pos in (2, 3, 4) and len(t2[pos]) != len(t[pos]):
                continue
            j = len(sc.lines)
            sc.do("final %s" % " ".join(hx(x) for x in t2))
            rec.append((j, (i, "differs"), "change"))
    for _ in range(150 if not big else 3000):
        w_ = r.choice([33, 33, 129, 1, 0, 5])
        idS, m1, m2, K, pw = rb(), rb(w_), rb(w_), rb(), rb()
        if r.random() < 0.2:
            m2 = m1[:-1] if r.random() < 0.5 else m1 + b"\x00"
        if r.random() < 0.1:
            m2 = m1
        if r.random() < 0.25:          # different lengths, unrelated contents, leading zeros
            m1, m2 = rb(r.choice([1, 2, 3, 5, 33])), rb(r.choice([1, 2, 4, 6, 34]))
            if r.random() < 0.5:
                m1 = b"\x00" * r.randrange(1, 3) + m1
        i = len(sc.lines)
        sc.do("finalsym %s" % " ".join(hx(x) for x in (idS, m1, m2, K, pw)))
        lo, hi = sorted([m1, m2])
        rec.append((i, "ok " + hx(H(H(pw) + H(idS) + lo + hi + K)), "finalsym"))
        j = len(sc.lines)
        sc.do("finalsym %s" % " ".join(hx(x) for x in (idS, m2, m1, K, pw)))
        rec.append((j, (i, "equal"), "swap"))
        if len(m1) == len(m2) and m1:
            m1b = bytes([m1[0] ^ 0x80]) + m1[1:]
            k = len(sc.lines)
            sc.do("finalsym %s" % " ".join(hx(x) for x in (idS, m1b, m2, K, pw)))
            if m1b != m2 or True:
                rec.append((k, (i, "differs") if sorted([m1b, m2]) != sorted([m1, m2]) else (i, "equal"), "change"))
    for sep in seps:
        m1, m2, K_ = rb(33), rb(33), rb(33)
        for (idS, pw) in ((b"room" + sep + b"x", b"pw"), (b"x", b"pw" + sep + b"room"), (b"room", b"x" + sep + b"pw"), (b"room" + sep + b"x", b"pw")):
            i = len(sc.lines)
            sc.do("finalsym %s" % " ".join(hx(x) for x in (idS, m1, m2, K_, pw)))
            lo, hi = sorted([m1, m2])
            rec.append((i, "ok " + hx(H(H(pw) + H(idS) + lo + hi + K_)), "finalsym"))
    sc.meta["rec"] = rec

    def pred(io, sc):
        for (i, want, what) in sc.meta["rec"]:
            if isinstance(want, str):
                if io[i] != want:
                    return "%s differs from the SHA-256 transcript layout" % what
            else:
                j, rel = want
                if rel == "equal" and io[i] != io[j]:
                    return "symmetric key is not invariant under exchanging m1 and m2"
                if rel == "differs" and io[i] == io[j]:
                    return "changing a single argument left the key unchanged"
        return None
    sc.pred = pred
    out.append(sc)
    return out
