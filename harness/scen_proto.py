"""Scenario generators for the protocol-level properties C01, C02, C03, C04, C06."""
from world import *


def key_of(out):
    return payload(out) if out.startswith("ok") else None


def ed_identity(msg):
    return msg[1:] == b"\x01" + b"\x00" * 31


# ---------------------------------------------------------------------------------------
def exchange(w, name, ps, sym, pw, ids, x, y, cyclesA=0, cyclesB=0, tags=(), mode=CLASS, msg_mode=NONE,
             psB=None, pwB=None, idsB=None, tamperA=None, tamperB=None):
    """one full exchange; returns the scenario with meta describing what happened.
    tamperA: function(mB, mA) -> bytes delivered to A instead of mB; tamperB likewise for B."""
    sc = w.scenario(name, tags)
    psB = psB or ps
    pwB = pw if pwB is None else pwB
    idsB = ids if idsB is None else idsB
    sideA, sideB = ("S", "S") if sym else ("A", "B")
    a = sc.new(sideA, ps, pw, ids[0], ids[1], w.entropy_for(ps, x))
    b = sc.new(sideB, psB, pwB, idsB[0], idsB[1], w.entropy_for(psB, y))
    oa = sc.start(a, msg_mode if msg_mode != NONE else CLASS)
    ob = sc.start(b, msg_mode if msg_mode != NONE else CLASS)
    mA, mB = payload(oa), payload(ob)
    for _ in range(cyclesA):
        a = sc.cycle(a, sideA, ps, mode)
    for _ in range(cyclesB):
        b = sc.cycle(b, sideB, psB, mode)
    if mA is None or mB is None:
        sc.meta.update(dict(started=False))
        return sc
    dA = tamperA(mB, mA) if tamperA else mB
    dB = tamperB(mA, mB) if tamperB else mA
    ka = sc.finish(a, dA, mode)
    kb = sc.finish(b, dB, mode)
    sc.meta.update(dict(started=True, mA=mA, mB=mB, dA=dA, dB=dB, ka=ka, kb=kb, kind=ps.kind, x=x, y=y, sym=sym))
    return sc


def pred_agreement(io, sc):
    m = sc.meta
    if not m.get("started"):
        return "start() failed: %s" % io[:4]
    ka, kb = m["ka"], m["kb"]
    KA, KB = key_of(ka), key_of(kb)
    if KA is not None and KB is not None:
        if KA == KB and len(KA) == 32:
            return None
        return "both ends finished but keys differ (or are not 32 bytes): %s / %s" % (ka, kb)
    # degenerate coincidences the protocol refuses
    if m["mA"][1:] == m["mB"][1:] and ka == "raise:ReflectionThwarted" and kb == "raise:ReflectionThwarted":
        return None
    if m["kind"] == "ed":
        a_got_id, b_got_id = ed_identity(m["mB"]), ed_identity(m["mA"])
        if a_got_id or b_got_id:
            ok_a = ka.startswith("raise:") if a_got_id else KA is not None
            ok_b = kb.startswith("raise:") if b_got_id else KB is not None
            if ok_a and ok_b:
                return None
    return "honest exchange did not agree: A=%s B=%s" % (ka, kb)


def gen_C01(w, tier):
    r = w.rng
    out = []
    n = 0
    big = tier == "thorough"
    for name, ps in w.ps.items():
        if ps.toy:
            continue
        reps = (14 if ps.kind == "ed" else 6) * (10 if big else 1)
        edges = w.edge_scalars(ps)
        combos = [(0, 0), (0, 1), (1, 0), (ps.q - 1, 1), (ps.q - 1, ps.q - 1), (1, 1), (5, 5)]
        for i in range(reps):
            sym = r.random() < 0.4
            if i < len(combos):
                x, y = combos[i]
            else:
                x, y = w.scalar(ps), w.scalar(ps)
            pw = PASSWORDS[i % len(PASSWORDS)] if i < 2 * len(PASSWORDS) else w.password()
            ids = w.ids_for("A")
            ca, cb = r.choice([0, 0, 1, 2]), r.choice([0, 0, 1, 3])
            sc = exchange(w, "C01/%s/%d" % (name, n), ps, sym, pw, ids, x, y, ca, cb,
                          tags=("set:" + name, "sym" if sym else "asym", "restore" if ca + cb else "fresh"))
            sc.pred = pred_agreement
            out.append(sc)
            n += 1
    # toy groups: exhaustive scalar pairs for several password classes (w = 0 included when found)
    for name, ps in w.ps.items():
        if not ps.toy:
            continue
        pws = toy_passwords(w, ps)
        q = ps.q
        pairs = [(x, y) for x in range(q) for y in range(q)]
        if q > 60 and not big:
            pairs = r.sample(pairs, 400)
        elif q > 60:
            pairs = r.sample(pairs, min(len(pairs), 6000))
        elif not big and len(pairs) > 600:
            pairs = r.sample(pairs, 600)
        for pw in pws[: (4 if big else 2)]:
            for sym in (False, True):
                for (x, y) in pairs:
                    sc = exchange(w, "C01/%s/%d" % (name, n), ps, sym, pw, (b"", b"i"), x, y,
                                  tags=("set:toy-" + ps.kind, "sym" if sym else "asym", "exhaustive-scalars"))
                    sc.pred = pred_agreement
                    out.append(sc)
                    n += 1
    return out


def toy_passwords(w, ps):
    """passwords covering password-scalar classes 0, 1, q-1 and two others (found by search on the impl)"""
    want = {0: None, 1: None, ps.q - 1: None}
    others = []
    for i in range(4000):
        pw = b"pw%d" % i
        o = w.im.run("g.p2s %d %s" % (ps.gid, hx(pw)))
        v = int(o.split()[1])
        if v in want and want[v] is None:
            want[v] = pw
        elif len(others) < 2 and v not in want:
            others.append(pw)
        if all(x is not None for x in want.values()) and len(others) >= 2:
            break
    return [p for p in want.values() if p is not None] + others


# ---------------------------------------------------------------------------------------
def gen_C03(w, tier):
    """byte-exact conformance: the Lean model (published constants, own SHA/HKDF) is the
    independent implementation of the released wire format"""
    r = w.rng
    out = []
    n = 0
    sizes = {"ed": 33, "1024": 129, "2048": 257, "3072": 385}
    reps = 40 if tier == "thorough" else 5

    def pred_len(io, sc):
        m = sc.meta
        if not m.get("started"):
            return "start failed"
        want = m.get("msglen")
        if want and (len(m["mA"]) != want or len(m["mB"]) != want):
            return "message length %d/%d, published %d" % (len(m["mA"]), len(m["mB"]), want)
        for k in (m["ka"], m["kb"]):
            K = key_of(k)
            if K is not None and len(K) != 32:
                return "key is not 32 bytes"
        return None
    for name, ps in w.ps.items():
        k = reps if not ps.toy else reps * 2
        if ps.kind == "int" and not ps.toy:
            k = max(2, k // 2)
        for i in range(k):
            sym = r.random() < 0.4
            x, y = w.scalar(ps), w.scalar(ps)
            pw, ids = w.password(), w.ids_for("A")
            ca, cb = r.choice([0, 1]), r.choice([0, 0, 2])
            sc = exchange(w, "C03/%s/%d" % (name, n), ps, sym, pw, ids, x, y, ca, cb,
                          tags=("set:" + ("toy" if ps.toy else name), "sym" if sym else "asym"), mode=EXACT, msg_mode=EXACT)
            sc.meta["msglen"] = sizes.get(name)
            sc.pred = pred_len
            out.append(sc)
            n += 1
    # default parameter set (no params= argument)
    for i in range(3 if tier == "quick" else 20):
        sc = w.scenario("C03/default/%d" % i, ("set:default",))
        ps = w.ps["ed"]
        x, y = w.scalar(ps), w.scalar(ps)
        pw = w.password()
        a, b = w.sid(), w.sid()
        sc.do("newdef %d A %s - - %s" % (a, hx(pw), hx(w.entropy_for(ps, x))))
        sc.do("newdef %d B %s - - %s" % (b, hx(pw), hx(w.entropy_for(ps, y))))
        ma, mb = payload(sc.start(a)), payload(sc.start(b))
        if ma and mb:
            sc.finish(a, mb)
            sc.finish(b, ma)
        out.append(sc)
    # the pieces: derivations and blinding elements, byte-exact
    sc = w.scenario("C03/derivations", ("derivations",))
    for name, ps in w.ps.items():
        for seed in (b"M", b"N", b"symmetric", b""):
            sc.do("g.arb %d %s" % (ps.gid, hx(seed)))
        for pw in PASSWORDS[:4]:
            sc.do("g.p2s %d %s" % (ps.gid, hx(pw)))
        sc.do("e.base %d %d" % (w.eid(), ps.gid))
        sc.do("g.sizes %d" % ps.gid)
    out.append(sc)
    return out
