"""Scenario generators for the protocol-level properties C01, C02, C03, C04, C06."""
from world import *


def key_of(out):
    return payload(out) if out.startswith("ok") else None


def ed_identity(msg):
    return msg[1:] == b"\x01" + b"\x00" * 31


# ---------------------------------------------------------------------------------------
def exchange(w, name, ps, sym, pw, ids, x, y, cyclesA=0, cyclesB=0, tags=(), mode=CLASS, msg_mode=NONE,
             psB=None, pwB=None, idsB=None, tamperA=None, tamperB=None):
    """one full exchange; returns the scenario with meta describing what happened.
    tamperA: function(mB, mA) -> bytes delivered to A instead of mB; tamperB likewise for B."""
    sc = w.scenario(name, tags)
    psB = psB or ps
    pwB = pw if pwB is None else pwB
    idsB = ids if idsB is None else idsB
    sideA, sideB = ("S", "S") if sym else ("A", "B")
    rd = w.rng.choice([0, 0, 0, 1, 2])
    a = sc.new(sideA, ps, pw, ids[0], ids[1], w.entropy_for(ps, x, redraws=rd))
    b = sc.new(sideB, psB, pwB, idsB[0], idsB[1], w.entropy_for(psB, y, redraws=(0 if rd else w.rng.choice([0, 1]))))
    oa = sc.start(a, msg_mode if msg_mode != NONE else CLASS)
    ob = sc.start(b, msg_mode if msg_mode != NONE else CLASS)
    mA, mB = payload(oa), payload(ob)
    failed_cycles = 0
    for _ in range(cyclesA):
        a2 = sc.cycle(a, sideA, ps, mode)
        failed_cycles += (a2 == a)
        a = a2
    for _ in range(cyclesB):
        b2 = sc.cycle(b, sideB, psB, mode)
        failed_cycles += (b2 == b)
        b = b2
    sc.meta["failed_cycles"] = failed_cycles
    if mA is None or mB is None:
        sc.meta.update(dict(started=False))
        return sc
    dA = tamperA(mB, mA) if tamperA else mB
    dB = tamperB(mA, mB) if tamperB else mA
    ka = sc.finish(a, dA, mode)
    kb = sc.finish(b, dB, mode)
    sc.meta.update(dict(started=True, mA=mA, mB=mB, dA=dA, dB=dB, ka=ka, kb=kb, kind=ps.kind, x=x, y=y, sym=sym))
    return sc


def pred_agreement(io, sc):
    m = sc.meta
    if not m.get("started"):
        return "start() failed: %s" % io[:4]
    if m.get("failed_cycles"):
        return "an end could not be persisted with serialize() and revived with from_serialized() (%d failed cycle(s))" % m["failed_cycles"]
    ka, kb = m["ka"], m["kb"]
    KA, KB = key_of(ka), key_of(kb)
    if KA is not None and KB is not None:
        if KA == KB and len(KA) == 32:
            return None
        return "both ends finished but keys differ (or are not 32 bytes): %s / %s" % (ka, kb)
    # degenerate coincidences the protocol refuses
    if m["mA"][1:] == m["mB"][1:] and ka == "raise:ReflectionThwarted" and kb == "raise:ReflectionThwarted":
        return None
    if m["kind"] == "ed":
        a_got_id, b_got_id = ed_identity(m["mB"]), ed_identity(m["mA"])
        if a_got_id or b_got_id:
            ok_a = ka.startswith("raise:") if a_got_id else KA is not None
            ok_b = kb.startswith("raise:") if b_got_id else KB is not None
            if ok_a and ok_b:
                return None
    return "honest exchange did not agree: A=%s B=%s" % (ka, kb)


def gen_C01(w, tier):
    r = w.rng
    out = []
    n = 0
    big = tier == "thorough"
    for name, ps in w.ps.items():
        if ps.toy or ps.base:
            continue
        reps = (14 if ps.kind == "ed" else 6) * (5 if big else 1)
        edges = w.edge_scalars(ps)
        combos = [(0, 0), (0, 1), (1, 0), (ps.q - 1, 1), (ps.q - 1, ps.q - 1), (1, 1), (5, 5)]
        for i in range(reps):
            sym = r.random() < 0.4
            if i < len(combos):
                x, y = combos[i]
            else:
                x, y = w.scalar(ps), w.scalar(ps)
            pw = PASSWORDS[i % len(PASSWORDS)] if i < 2 * len(PASSWORDS) else w.password()
            ids = w.ids_for("A")
            ca, cb = r.choice([0, 0, 1, 2]), r.choice([0, 0, 1, 3])
            sc = exchange(w, "C01/%s/%d" % (name, n), ps, sym, pw, ids, x, y, ca, cb,
                          tags=("set:" + name, "sym" if sym else "asym", "restore" if ca + cb else "fresh"))
            sc.pred = pred_agreement
            out.append(sc)
            n += 1
    # every edge scalar, including the magic values harvested from the source text, once on each side
    for name, ps in w.ps.items():
        if ps.toy or ps.base:
            continue
        es = w.edge_scalars(ps)
        if not big and ps.kind == "int":
            es = es[:7] + r.sample(es[7:], min(len(es) - 7, 12))
        for x in es:
            for swap in (False, True):
                y = w.scalar(ps, 0)
                sc = exchange(w, "C01/%s/edge/%d" % (name, n), ps, r.random() < 0.3, w.password(), w.ids_for("A"),
                              y if swap else x, x if swap else y, r.choice([0, 0, 1]), r.choice([0, 0, 1]),
                              tags=("set:" + name, "edge-scalar"))
                sc.pred = pred_agreement
                out.append(sc)
                n += 1
    # several exchanges in flight at once, all persisted and revived before any of them finishes
    for name in ("ed", "1024"):
        ps = w.ps[name]
        for rep in range(3 if not big else 20):
            sc = w.scenario("C01/%s/in-flight/%d" % (name, rep), ("set:" + name, "several-in-flight"))
            k = r.choice([2, 3])
            ends = []
            for j in range(k):
                sym = r.random() < 0.3
                sa, sb = ("S", "S") if sym else ("A", "B")
                pw, ids = w.password(), w.ids_for("A")
                a = sc.new(sa, ps, pw, ids[0], ids[1], w.entropy_for(ps, w.scalar(ps)), CLASS)
                b = sc.new(sb, ps, pw, ids[0], ids[1], w.entropy_for(ps, w.scalar(ps)), CLASS)
                ends.append([a, b, sa, sb, payload(sc.start(a, CLASS)), payload(sc.start(b, CLASS))])
            bad = 0
            for e in ends:
                for idx in (0, 1):
                    n2 = sc.cycle(e[idx], e[2 + idx], ps, CLASS)
                    bad += (n2 == e[idx])
                    e[idx] = n2
            keys = []
            for e in ends:
                keys.append((sc.finish(e[0], e[5], CLASS), sc.finish(e[1], e[4], CLASS), e[4], e[5]))
            sc.meta.update(keys=keys, bad=bad)

            def pred_if(io, sc):
                if sc.meta["bad"]:
                    return "an end could not be persisted and revived"
                for (ka, kb, ma, mb) in sc.meta["keys"]:
                    if ma[1:] == mb[1:]:
                        continue
                    if not (ka.startswith("ok") and ka == kb):
                        return "exchanges revived together did not agree: %s / %s" % (ka[:50], kb[:50])
                return None
            sc.pred = pred_if
            out.append(sc)
            n += 1
    # toy groups: exhaustive scalar pairs for several password classes (w = 0 included when found)
    for name, ps in w.ps.items():
        if not ps.toy or ps.base:
            continue
        pws = toy_passwords(w, ps)
        q = ps.q
        pairs = [(x, y) for x in range(q) for y in range(q)]
        if q > 60 and not big:
            pairs = r.sample(pairs, 400)
        elif q > 60:
            pairs = r.sample(pairs, min(len(pairs), 2500))
        elif not big and len(pairs) > 600:
            pairs = r.sample(pairs, 600)
        for pw in pws[: (3 if big else 2)]:
            for sym in (False, True):
                for (x, y) in pairs:
                    sc = exchange(w, "C01/%s/%d" % (name, n), ps, sym, pw, (b"", b"i"), x, y,
                                  tags=("set:toy-" + ps.kind, "sym" if sym else "asym", "exhaustive-scalars"))
                    sc.pred = pred_agreement
                    out.append(sc)
                    n += 1
    return out


def toy_passwords(w, ps):
    """passwords covering password-scalar classes 0, 1, q-1 and two others (found by search on the impl)"""
    want = {0: None, 1: None, ps.q - 1: None}
    others = []
    for i in range(4000):
        pw = b"pw%d" % i
        o = w.im.run("g.p2s %d %s" % (ps.gid, hx(pw)))
        v = int(o.split()[1])
        if v in want and want[v] is None:
            want[v] = pw
        elif len(others) < 2 and v not in want:
            others.append(pw)
        if all(x is not None for x in want.values()) and len(others) >= 2:
            break
    return [p for p in want.values() if p is not None] + others


# ---------------------------------------------------------------------------------------
def gen_C03(w, tier):
    """byte-exact conformance: the Lean model (published constants, own SHA/HKDF) is the
    independent implementation of the released wire format"""
    r = w.rng
    out = []
    n = 0
    sizes = {"ed": 33, "1024": 129, "2048": 257, "3072": 385}
    reps = 40 if tier == "thorough" else 5

    def pred_len(io, sc):
        m = sc.meta
        if not m.get("started"):
            return "start failed"
        want = m.get("msglen")
        if want and (len(m["mA"]) != want or len(m["mB"]) != want):
            return "message length %d/%d, published %d" % (len(m["mA"]), len(m["mB"]), want)
        for k in (m["ka"], m["kb"]):
            K = key_of(k)
            if K is not None and len(K) != 32:
                return "key is not 32 bytes"
        return None
    for name, ps in w.ps.items():
        if ps.base and ps.toy:
            continue
        k = reps if not ps.toy else reps * 2
        if ps.kind == "int" and not ps.toy:
            k = max(2, k // 2)
        for i in range(k):
            sym = r.random() < 0.4
            x, y = w.scalar(ps), w.scalar(ps)
            pw, ids = w.password(), w.ids_for("A")
            ca, cb = r.choice([0, 1]), r.choice([0, 0, 2])
            sc = exchange(w, "C03/%s/%d" % (name, n), ps, sym, pw, ids, x, y, ca, cb,
                          tags=("set:" + ("toy" if ps.toy else name), "sym" if sym else "asym"), mode=EXACT, msg_mode=EXACT)
            sc.meta["msglen"] = sizes.get(name)
            sc.pred = pred_len
            out.append(sc)
            n += 1
    # very long password / identities (above 64 KiB)
    for name in ("ed", "1024"):
        ps = w.ps[name]
        long_pw = bytes((i * 13) % 253 for i in range(70001))
        sc = exchange(w, "C03/%s/long" % name, ps, name == "1024", long_pw, (long_pw[:65537], long_pw[1:65538]), w.scalar(ps), w.scalar(ps), 1, 0,
                      tags=("set:" + name, "long-inputs"), mode=EXACT, msg_mode=EXACT)
        sc.pred = pred_len
        out.append(sc)
    # a long run of rejected draws before the accepted one (integer groups)
    for name in ("1024", "toy2039_1019_4"):
        ps = w.ps.get(name)
        if ps is None:
            continue
        sc = w.scenario("C03/%s/many-redraws" % name, ("set:" + name, "many-redraws"))
        a = sc.new("A", ps, b"pw", b"", b"", w.entropy_for(ps, 7, redraws=150))
        b = sc.new("B", ps, b"pw", b"", b"", w.entropy_for(ps, 9, redraws=3))
        ma, mb = payload(sc.start(a)), payload(sc.start(b))
        if ma and mb:
            sc.finish(a, mb)
            sc.finish(b, ma)
        out.append(sc)
    # default parameter set (no params= argument)
    for i in range(3 if tier == "quick" else 20):
        sc = w.scenario("C03/default/%d" % i, ("set:default",))
        ps = w.ps["ed"]
        x, y = w.scalar(ps), w.scalar(ps)
        pw = w.password()
        a, b = w.sid(), w.sid()
        sc.do("newdef %d A %s - - %s" % (a, hx(pw), hx(w.entropy_for(ps, x))))
        sc.do("newdef %d B %s - - %s" % (b, hx(pw), hx(w.entropy_for(ps, y))))
        ma, mb = payload(sc.start(a)), payload(sc.start(b))
        if ma and mb:
            sc.finish(a, mb)
            sc.finish(b, ma)
        out.append(sc)
    # the pieces: derivations and blinding elements, byte-exact
    sc = w.scenario("C03/derivations", ("derivations",))
    for name, ps in w.ps.items():
        for seed in (b"M", b"N", b"symmetric", b""):
            sc.do("g.arb %d %s" % (ps.gid, hx(seed)))
        for pw in PASSWORDS[:4]:
            sc.do("g.p2s %d %s" % (ps.gid, hx(pw)))
        sc.do("e.base %d %d" % (w.eid(), ps.gid))
        sc.do("g.sizes %d" % ps.gid)
        sc.do("p.mns %d" % ps.pid)
    out.append(sc)
    return out


# ---------------------------------------------------------------------------------------
# C02: any mismatch or tampering prevents agreement
# ---------------------------------------------------------------------------------------
def pwscalar(w, ps, pw):
    return int(w.im.run("g.p2s %d %s" % (ps.gid, hx(pw))).split()[1])


def pred_no_agreement(io, sc):
    """the two ends were given different inputs or altered messages: equal keys are a violation,
    except for the recorded degenerate classes (known findings), which are recognised *exactly*."""
    m = sc.meta
    if not m.get("started"):
        return None
    KA, KB = key_of(m["ka"]), key_of(m["kb"])
    if KA is None or KB is None or KA != KB:
        return None
    q = m.get("q")
    mm = m.get("mismatch")
    if mm.startswith("tamper") and m["dA"] == m["mB"] and m["dB"] == m["mA"]:
        return None     # the edit was a no-op on this message
    x, y, wv = m["x"], m["y"], m.get("w")
    if mm in ("blindM", "blindN", "blindS", "generator") and q:
        cond = {"blindM": wv * y, "blindN": wv * x, "blindS": wv * (x + y), "generator": x * y}[mm] % q == 0
        if cond:
            return ("known", "K1a", "ends differing only in %s agree when the relevant scalar product is 0 mod q (x=%d y=%d w=%d)" % (mm, x, y, wv))
    if mm == "sym-same-third" and m.get("sym") and m["mA"] == m["mB"]:
        return ("known", "K1b", "two symmetric ends with equal scalars, same third message delivered to both")
    return "ends with differing inputs/altered messages obtained EQUAL keys (%s): %s" % (mm, m["ka"])


def gen_C02(w, tier):
    r = w.rng
    out = []
    big = tier == "thorough"
    n = [0]

    def add(name, ps, sym, pw, ids, x, y, mismatch, **kw):
        if "cyclesA" not in kw and not ps.toy and r.random() < 0.5:
            kw["cyclesA"], kw["cyclesB"] = r.choice([(1, 0), (0, 1), (1, 1), (2, 0)])
        kw.setdefault("mode", EXACT)
        sc = exchange(w, "C02/%s/%d" % (name, n[0]), ps, sym, pw, ids, x, y, tags=("mismatch:" + mismatch, "set:" + ("toy" if ps.toy else ps.name)) + (("restored",) if kw.get("cyclesA") or kw.get("cyclesB") else ()), **kw)
        sc.meta.update(mismatch=mismatch, q=ps.q, w=pwscalar(w, ps, pw))
        sc.pred = pred_no_agreement
        out.append(sc)
        n[0] += 1
        return sc
    mains = [ps for k, ps in w.ps.items() if not ps.base]
    shipped = [ps for ps in mains if not ps.toy]
    # ---- (1) field differences --------------------------------------------------------
    for ps in shipped + [ps for ps in mains if ps.toy][:3]:
        reps = 2 if (ps.kind == "int" and not ps.toy and not big) else 4
        for i in range(reps * (5 if big else 1)):
            sym = i % 2 == 1
            x, y = w.scalar(ps), w.scalar(ps)
            pw = w.password()
            ids = (r.choice(IDS[1:]), r.choice(IDS[1:]))
            other_pw = pw + b"x" if r.random() < 0.5 else (pw[:-1] if pw else b"\x00")
            add(ps.name, ps, sym, pw, ids, x, y, "password", pwB=other_pw)
            add(ps.name, ps, sym, pw, ids, x, y, "idA", idsB=(ids[0] + b"'", ids[1]))
            if not sym:
                add(ps.name, ps, sym, pw, ids, x, y, "idB", idsB=(ids[0], ids[1] + b"'"))
                if ids[0] != ids[1]:
                    add(ps.name, ps, sym, pw, ids, x, y, "ids-swapped", idsB=(ids[1], ids[0]))
                add(ps.name, ps, False, pw, (b"ab", b"c"), x, y, "ids-concat", idsB=(b"a", b"bc"))
                if ids[0] != ids[1]:
                    # the peer uses one identity twice; with and without a restore on either end
                    for cyc in ((0, 0), (1, 0), (0, 1)):
                        add(ps.name, ps, False, pw, ids, x, y, "idB-equals-idA", idsB=(ids[0], ids[0]), cyclesA=cyc[0], cyclesB=cyc[1])
                        add(ps.name, ps, False, pw, ids, x, y, "idA-equals-idB", idsB=(ids[1], ids[1]), cyclesA=cyc[0], cyclesB=cyc[1])
    # passwords that a folding / normalising / truncating step would identify: the other end holds the digest, the hex
    # digest, a 64-byte prefix, a padded, stripped, case-folded or Unicode-normalised form of the password
    import hashlib as _hl, unicodedata as _ud
    ps = w.ps["ed"]
    bases = [b"pw", b"Password 1 ", b"L" * 65, bytes(range(1, 201)), b"cafe\xcc\x81", b"\xef\xac\x81sh", b"\xef\xbc\x91\xef\xbc\x92"]
    for k_, pw in enumerate(bases if big else bases[:2] + [bases[2 + (w.rng.randrange(2))]] + bases[4:]):
        alts = [("sha256", _hl.sha256(pw).digest()), ("sha256-hex", _hl.sha256(pw).hexdigest().encode()), ("prefix64", pw[:64]),
                ("nul-padded", pw + b"\x00"), ("stripped", pw.strip()), ("lower", pw.lower()), ("upper", pw.upper())]
        try:
            t = pw.decode("utf-8")
            alts += [("nfkc", _ud.normalize("NFKC", t).encode("utf-8")), ("nfc", _ud.normalize("NFC", t).encode("utf-8"))]
        except UnicodeDecodeError:
            pass
        seen = {pw}
        for (what, other) in alts:
            if other in seen:
                continue
            seen.add(other)
            add(ps.name, ps, k_ % 2 == 1, pw, (b"a", b"b"), w.scalar(ps, 0), w.scalar(ps, 0), "password-alias-" + what, pwB=other)
    # different groups
    for a_, b_ in (("ed", "1024"), ("1024", "2048"), ("3072", "2048")):
        ps, psB = w.ps[a_], w.ps[b_]
        add(a_ + "-" + b_, ps, False, b"pw", (b"", b""), w.scalar(ps), w.scalar(psB), "group", psB=psB)
        add(a_ + "-" + b_, ps, True, b"pw", (b"", b""), w.scalar(ps), w.scalar(psB), "group", psB=psB)
    # blinding element differs (same group)
    for key, alt in w.ps.items():
        if not alt.base:
            continue
        ps = w.ps[alt.base]
        which = key[-1]
        if ps.toy:
            q = ps.q
            pairs = [(x, y) for x in range(q) for y in range(q)]
            if len(pairs) > (900 if big else 150):
                pairs = r.sample(pairs, 900 if big else 150) + [(0, 0), (0, 1), (1, 0), (q - 1, 1)]
            pws = toy_passwords(w, ps)[:3]
        else:
            pairs = [(0, 5), (5, 0), (1, ps.q - 1), (w.scalar(ps), w.scalar(ps)), (w.scalar(ps), w.scalar(ps))]
            pws = [b"password", b""]
        for pw in pws:
            for (x, y) in pairs:
                if which == "S":
                    add(key, ps, True, pw, (b"", b""), x, y, "blindS", psB=alt)
                else:
                    add(key, ps, False, pw, (b"a", b"b"), x, y, "blind" + which, psB=alt)
    # generator differs (toy groups with the same p, q and the same seeds)
    g2, g4 = w.ps.get("toy23_11_2"), w.ps.get("toy23_11_4")
    if g2 and g4 and g2.seeds == g4.seeds:
        for pw in toy_passwords(w, g2)[:3]:
            for x in range(11):
                for y in range(11):
                    add("generator", g2, False, pw, (b"", b""), x, y, "generator", psB=g4)
    # ---- (2) in-flight tampering ------------------------------------------------------
    def tam(f):
        return lambda peer_msg, own_msg: f(peer_msg, own_msg)
    ed = w.ps["ed"]
    E = refmath_ed()
    torsion = torsion_points(w)
    specials = special_elements(w)
    for ps in shipped + [w.ps[k] for k in ("toy2039_1019_4", "toyed389") if k in w.ps]:
        is_ed = ps.kind == "ed"
        es = ps.esize
        flips = list(range(8 * (1 + es)))
        if not (is_ed and not ps.toy):
            flips = r.sample(flips, min(len(flips), 24 if not big else 200))
        elif not big:
            flips = r.sample(flips, min(len(flips), 96))
        edits = []
        for bit in flips:
            edits.append(("bitflip", lambda m, o, bit=bit: m[:bit // 8] + bytes([m[bit // 8] ^ (1 << (bit % 8))]) + m[bit // 8 + 1:]))
        for L_ in sorted(set([0, 1, 2, es // 2, es - 1, es] + ([r.randrange(es) for _ in range(6)] if big else []))):
            edits.append(("truncate", lambda m, o, L_=L_: m[:L_]))
        edits += [("extend-zero", lambda m, o: m + b"\x00"), ("extend-zero-many", lambda m, o: m + b"\x00" * es),
                  ("extend-random", lambda m, o: m + bytes(r.randrange(256) for _ in range(3))),
                  ("extend-dup", lambda m, o: m + m[1:]), ("extend-own", lambda m, o: m + o[1:]),
                  ("prepend-zero", lambda m, o: m[:1] + b"\x00" + m[1:]),
                  ("zero-body", lambda m, o: m[:1] + b"\x00" * es), ("ones-body", lambda m, o: m[:1] + b"\xff" * es)]
        edits.append(("strip-leading-zeros", lambda m, o: m[:1] + (m[1:].lstrip(b"\x00") or b"\x00")))
        for sb in (0, 0x41, 0x42, 0x53, 0x43, 0xff):
            edits.append(("sidebyte", lambda m, o, sb=sb: bytes([sb]) + m[1:]))
        for nm, enc in specials.get(ps.name, []):
            edits.append(("subst-" + nm, lambda m, o, enc=enc: m[:1] + enc))
        if is_ed and not ps.toy:
            for k, T in enumerate(torsion):
                edits.append(("subst-torsion", lambda m, o, T=T: m[:1] + E.encode(T)))
                edits.append(("add-torsion", lambda m, o, T=T: m[:1] + add_torsion(E, m[1:], T)))
        for sym in (False, True):
            for (nm, f) in edits:
                if sym and nm == "sidebyte":
                    continue
                x, y = w.scalar(ps, 0.1), w.scalar(ps, 0.1)
                pw = r.choice([b"pw", b"", b"password"])
                if r.random() < 0.5:
                    add(ps.name, ps, sym, pw, (b"a", b"b"), x, y, "tamper-" + nm, tamperB=f)
                else:
                    add(ps.name, ps, sym, pw, (b"a", b"b"), x, y, "tamper-" + nm, tamperA=f)
        if ps.toy and ps.kind == "int" and ps.esize > 1:
            for _ in range(60):
                add(ps.name, ps, r.random() < 0.5, b"pw", (b"a", b"b"), w.scalar(ps, 0), w.scalar(ps, 0), "tamper-strip-leading-zeros",
                    tamperB=lambda m, o: m[:1] + (m[1:].lstrip(b"\x00") or b"\x00"))
        # both directions altered consistently: X*||Y* style framing attacks and message swaps
        for sym in (False, True):
            x, y = w.scalar(ps, 0), w.scalar(ps, 0)
            add(ps.name, ps, sym, b"pw", (b"", b""), x, y, "tamper-both-concat",
                tamperA=lambda m, o: m + m[1:], tamperB=lambda m, o: m + o[1:])
            add(ps.name, ps, sym, b"pw", (b"", b""), x, y, "tamper-both-truncate",
                tamperA=lambda m, o: m[:-1], tamperB=lambda m, o: m[:-1])
        # another session's message
        other = exchange(w, "C02/other", ps, False, b"other", (b"", b""), w.scalar(ps, 0), w.scalar(ps, 0), mode=NONE)
        if other.meta.get("started"):
            om = other.meta["mA"]
            add(ps.name, ps, False, b"pw", (b"", b""), w.scalar(ps, 0), w.scalar(ps, 0), "tamper-other-session",
                tamperB=lambda m, o: m[:1] + om[1:])
        # symmetric: same third message to both ends; equal scalars is the recorded class K1b
        for (x, y) in ((3, 3), (3, 4)):
            third = specials.get(ps.name, [("", None)])
            enc = dict(third).get("generator")
            if enc:
                add(ps.name, ps, True, b"pw", (b"", b""), x, y, "sym-same-third",
                    tamperA=lambda m, o, enc=enc: b"S" + enc, tamperB=lambda m, o, enc=enc: b"S" + enc)
    return out


def refmath_ed():
    Q = 2 ** 255 - 19
    d = (-121665 * refmath.modinv(121666, Q)) % Q
    return refmath.Edwards(Q, d)


_TORSION = None


def torsion_points(w=None):
    """the 8 points of order dividing 8 on Ed25519 (computed with the harness' own arithmetic)"""
    global _TORSION
    if _TORSION is None:
        import random as _r
        E = refmath_ed()
        L = 2 ** 252 + 27742317777372353535851937790883648493
        rr = _r.Random(7)
        while True:
            P = E.random_point(rr)
            T = E.mul(P, L)
            if E.mul(T, 4) != (0, 1):
                break
        _TORSION = [E.mul(T, k) for k in range(8)]
    return _TORSION


def add_torsion(E, enc, T):
    """encoding of (decoded point + T); falls back to the input if it does not decode"""
    v = int.from_bytes(enc[:32], "little")
    y = v & ((1 << 255) - 1)
    xs = E.xs_for_y(y % E.Q)
    if not xs:
        return enc
    x = [t for t in xs if (t & 1) == (v >> 255)] or xs
    return E.encode(E.add((x[0], y % E.Q), T))


def special_elements(w):
    """encodings of identity, generator, M, N, S per parameter set (taken from the implementation)"""
    out = {}
    for name, ps in w.ps.items():
        if ps.base:
            continue
        l = []
        o = w.im.run("e.zero %d %d" % (w.eid(), ps.gid)); l.append(("identity", payload(o)))
        o = w.im.run("e.base %d %d" % (w.eid(), ps.gid)); l.append(("generator", payload(o)))
        if ps.seeds or not ps.toy:
            seeds = ps.seeds or (b"M", b"N", b"symmetric")
            for nm, sd in zip("MNS", seeds):
                o = w.im.run("g.arb %d %s" % (ps.gid, hx(sd)))
                if o.startswith("ok"):
                    l.append((nm, payload(o)))
        out[name] = l
    return out


# ---------------------------------------------------------------------------------------
# C04: the outbound message hides the password
# ---------------------------------------------------------------------------------------
def gen_C04(w, tier):
    r = w.rng
    out = []
    big = tier == "thorough"
    # toy groups: for each password class, as x ranges over [0,q) the message ranges over the whole
    # subgroup, each element exactly once
    for name, ps in w.ps.items():
        if not ps.toy or ps.base:
            continue
        if ps.q > 300 and not big:
            continue
        # the subgroup, enumerated through the implementation's own Base.scalarmult
        sub = set()
        be = w.eid()
        w.im.run("e.base %d %d" % (be, ps.gid))
        for k in range(ps.q):
            t = w.eid()
            sub.add(payload(w.im.run("e.smul %d %d %d" % (t, be, k))))
        for pw in toy_passwords(w, ps):
            for side in ("A", "B", "S"):
                sc = w.scenario("C04/%s/%s/%s" % (name, hx(pw), side), ("toy-exhaustive", "side:" + side))
                idxs = []
                for x in range(ps.q):
                    ids = (r.choice(IDS), r.choice(IDS))
                    s_ = sc.new(side, ps, pw, ids[0], ids[1], w.entropy_for(ps, x), EXACT)
                    sc.start(s_, EXACT)
                    idxs.append(len(sc.lines) - 1)
                sc.meta.update(idxs=idxs, sub=sub, q=ps.q, kind=ps.kind)

                def pred(io, sc):
                    msgs = [payload(io[i]) for i in sc.meta["idxs"]]
                    if any(m is None for m in msgs):
                        return "start() raised for some scalar"
                    els = [m[1:] for m in msgs]
                    if len(set(els)) != sc.meta["q"]:
                        return "message elements are not pairwise distinct over x in [0,q): %d distinct of %d" % (len(set(els)), sc.meta["q"])
                    if set(els) != sc.meta["sub"]:
                        return "the set of message elements is not the whole prime-order subgroup"
                    return None
                sc.pred = pred
                out.append(sc)
    # "with a uniformly drawn scalar the message is uniformly distributed": enumerate the ENTROPY TAPES of the
    # sampler on groups whose scalars fit one byte -- every subgroup element for the same number of tapes
    for name, ps in w.ps.items():
        if not ps.toy or ps.base or ps.kind != "int" or ps.ssize != 1:
            continue
        for side in "AS":
            pw = toy_passwords(w, ps)[-1]
            sc = w.scenario("C04/%s/tapes/%s" % (name, side), ("entropy-tapes", "side:" + side))
            idx = []
            for b in range(256):
                s_ = sc.new(side, ps, pw, b"", b"", bytes([b]), EXACT)
                idx.append(len(sc.lines))
                sc.start(s_, EXACT)
            sc.meta.update(idx=idx, q=ps.q)

            def pred_t(io, sc):
                counts = {}
                for i in sc.meta["idx"]:
                    m = payload(io[i])
                    if m is not None:
                        counts[m] = counts.get(m, 0) + 1
                if len(counts) != sc.meta["q"] or len(set(counts.values())) != 1:
                    return "over all one-byte entropy tapes the messages are not uniform on the subgroup: %d distinct, counts %s" % (
                        len(counts), sorted(set(counts.values())))
                return None
            sc.pred = pred_t
            out.append(sc)
    # the same after one rejected draw, on groups whose scalars need two bytes: all (rejected first candidate,
    # accepted second candidate) tapes -- every subgroup element must come out for the same number of tapes
    for name, ps in w.ps.items():
        if not ps.toy or ps.base or ps.kind != "int" or ps.ssize != 2:
            continue
        bits = (ps.q - 1).bit_length()
        rejected = list(range(ps.q, 1 << bits))
        if not rejected or len(rejected) * ps.q > (3000 if not big else 20000):
            rejected = rejected[:max(1, (3000 if not big else 20000) // ps.q)]
        if not rejected:
            continue
        pw = toy_passwords(w, ps)[-1]
        sc = w.scenario("C04/%s/tapes-after-rejection/S" % name, ("entropy-tapes", "rejection", "side:S"))
        idx = []
        for rj in rejected:
            for x in range(ps.q):
                s_ = sc.new("S", ps, pw, b"", b"", rj.to_bytes(2, "big") + x.to_bytes(2, "big") + b"\x00\x00", EXACT)
                idx.append(len(sc.lines))
                sc.start(s_, EXACT)
        sc.meta.update(idx=idx, q=ps.q, n=len(rejected))

        def pred_r(io, sc):
            counts = {}
            for i in sc.meta["idx"]:
                m = payload(io[i])
                if m is not None:
                    counts[m] = counts.get(m, 0) + 1
            if len(counts) != sc.meta["q"] or set(counts.values()) != {sc.meta["n"]}:
                return "over all (rejected candidate, accepted candidate) entropy tapes the messages are not uniform on the subgroup: %d distinct of %d, counts %s" % (
                    len(counts), sc.meta["q"], sorted(set(counts.values()))[:6])
            return None
        sc.pred = pred_r
        out.append(sc)
    # shipped groups: one rejected draw, then an accepted one (the second candidate must be entirely fresh bytes)
    for name in ("1024", "2048", "3072"):
        if name not in w.ps or (name != "1024" and not big):
            continue
        ps = w.ps[name]
        sc = w.scenario("C04/%s/after-rejection" % name, ("rejection", "set:" + name))
        for x in [0, 1, ps.q - 1, r.randrange(ps.q), r.randrange(ps.q)]:
            for redraws in (1, 2):
                s_ = sc.new("ABS"[x % 3], ps, b"pw", b"", b"", w.entropy_for(ps, x, redraws=redraws), EXACT)
                sc.start(s_, EXACT)
                sc.do("entleft %d" % s_)
        out.append(sc)
    # shipped groups: msg - w*M == x*G, and the identity strings never influence the message
    for name, ps in w.ps.items():
        if ps.toy or ps.base:
            continue
        reps = (8 if ps.kind == "ed" else 3) * (8 if big else 1)
        seeds = ps.seeds or (b"M", b"N", b"symmetric")
        # deterministic edge scalars first (0, 1, q-1, the top bit of the order, ...), then random ones
        fixed = w.base_edges(ps) if (ps.kind == "ed" or name == "1024" or big) else []
        for i in range(len(fixed) + reps):
            side = "ABS"[i % 3]
            x = fixed[i] % ps.q if i < len(fixed) else w.scalar(ps)
            pw = w.password()
            sc = w.scenario("C04/%s/%d" % (name, i), ("identity", "set:" + name, "side:" + side))
            s1 = sc.new(side, ps, pw, b"", b"", w.entropy_for(ps, x))
            s2 = sc.new(side, ps, pw, r.choice(IDS[1:]), r.choice(IDS[1:]), w.entropy_for(ps, x))
            o1, o2 = sc.start(s1), sc.start(s2)
            m = payload(o1)
            res = {}
            if m is not None and not (ps.kind == "ed" and ed_identity(m)):
                em, eM, eB, t1, t2, t3 = (w.eid() for _ in range(6))
                sc.do("e.dec %d %d %s" % (em, ps.gid, hx(m[1:])))
                sc.do("e.arb %d %d %s" % (eM, ps.gid, hx(seeds["ABS".index(side)])))
                wv = pwscalar(w, ps, pw)
                sc.do("e.smul %d %d %d" % (t1, eM, -wv))
                sc.do("e.add %d %d %d" % (t2, em, t1))
                sc.do("e.base %d %d" % (eB, ps.gid))
                sc.do("e.smul %d %d %d" % (t3, eB, x))
                res["eq"] = sc.do("e.eq %d %d" % (t2, t3))
            sc.meta.update(o1=o1, o2=o2, res=res)

            def pred2(io, sc):
                if sc.meta["o1"] != sc.meta["o2"]:
                    return "identity strings influenced the outbound message"
                if sc.meta["res"].get("eq", "ok true") != "ok true":
                    return "message - w*M != x*G"
                return None
            sc.pred = pred2
            out.append(sc)
    return out


# ---------------------------------------------------------------------------------------
# C06: side confusion and reflection
# ---------------------------------------------------------------------------------------
def gen_C06(w, tier):
    r = w.rng
    out = []
    big = tier == "thorough"
    sets = [w.ps[k] for k in ("ed", "1024", "toy2039_1019_4", "toyed389", "2048", "3072") if k in w.ps]
    if not big:
        sets = sets[:4]
    zero_lead = {}
    for ps in sets:
        # a valid peer element (so that only the side byte decides)
        peer = {}
        for side in "ABS":
            t = w.scenario("C06/peer", ())
            p_ = t.new(side, ps, b"pw", b"", b"", w.entropy_for(ps, 7), NONE)
            peer[side] = payload(t.start(p_, NONE))
        for side in "ABS":
            for restored in (False, True):
                values = list(range(256)) + [None]
                if ps.kind == "int" and not ps.toy and not big:
                    values = [0x41, 0x42, 0x53, 0x00, 0x43, 0x61, 0xff, None]
                sc = w.scenario("C06/%s/%s/%s" % (ps.name, side, "restored" if restored else "fresh"),
                                ("set:" + ps.name, "side:" + side, "restored" if restored else "fresh"))
                rec = []
                for v in values:
                    s_ = sc.new(side, ps, b"pw", b"", b"", w.entropy_for(ps, 5))
                    own = payload(sc.start(s_))
                    if restored:
                        s_ = sc.cycle(s_, side, ps)
                    body = peer["B" if side == "A" else "A" if side == "B" else "S"][1:]
                    msg = b"" if v is None else bytes([v]) + body
                    o = sc.finish(s_, msg)
                    rec.append((v, o))
                    # reflection: own element under every label
                    if v in (0x41, 0x42, 0x53):
                        s2 = sc.new(side, ps, b"pw", b"", b"", w.entropy_for(ps, 5))
                        own = payload(sc.start(s2))
                        if restored:
                            s2 = sc.cycle(s2, side, ps)
                        o2 = sc.finish(s2, bytes([v]) + own[1:])
                        rec.append(("reflect", v, o2))
                # reflection of the instance's own element in another spelling of the same number (integer groups:
                # leading zero byte stripped / one more added); needs an own element that begins with a zero byte
                if ps.kind == "int":
                    xz = zero_lead.get(ps.name)
                    if xz is None:
                        t = w.scenario("C06/peer", ())
                        xz = 0
                        for x_ in range(1, 60 if ps.toy else (700 if not big else 3000)):
                            p_ = t.new("S", ps, b"pw", b"", b"", w.entropy_for(ps, x_), NONE)
                            m_ = payload(t.start(p_, NONE))
                            if m_ is not None and len(m_) > 2 and m_[1] == 0 and any(m_[2:]):
                                xz = x_
                                break
                        zero_lead[ps.name] = xz
                    if xz:
                        for v in (0x41, 0x42, 0x53):
                            for variant in ("strip", "pad"):
                                s4 = sc.new(side, ps, b"pw", b"", b"", w.entropy_for(ps, xz if side == "S" else 5))
                                own = payload(sc.start(s4))
                                if side != "S":
                                    # for A/B the element depends on the role's blinding element: search again, cheaply
                                    for x_ in range(1, 60 if ps.toy else 700):
                                        t = w.scenario("C06/peer", ())
                                        p_ = t.new(side, ps, b"pw", b"", b"", w.entropy_for(ps, x_), NONE)
                                        m_ = payload(t.start(p_, NONE))
                                        if m_ is not None and len(m_) > 2 and m_[1] == 0 and any(m_[2:]):
                                            s4 = sc.new(side, ps, b"pw", b"", b"", w.entropy_for(ps, x_))
                                            own = payload(sc.start(s4))
                                            break
                                    else:
                                        continue
                                if restored:
                                    s4 = sc.cycle(s4, side, ps)
                                body = own[1:].lstrip(b"\x00") if variant == "strip" else b"\x00" + own[1:]
                                o4 = sc.finish(s4, bytes([v]) + body)
                                rec.append(("reflect-variant", v, o4))
                # the same frames delivered as a bytearray (bytes-like objects are accepted by the library)
                # (Ed25519 only: IntegerGroup.bytes_to_element insists on `bytes`)
                for v in ((0x41, 0x42, 0x53, 0x5a) if ps.kind == "ed" else ()):
                    s3 = sc.new(side, ps, b"pw", b"", b"", w.entropy_for(ps, 5))
                    sc.start(s3)
                    if restored:
                        s3 = sc.cycle(s3, side, ps)
                    o3 = sc.do("finishba %d %s" % (s3, hx(bytes([v]) + peer["B" if side == "A" else "A" if side == "B" else "S"][1:])))
                    rec.append((v, o3))
                sc.meta.update(rec=rec, side=side)

                def pred(io, sc):
                    side = sc.meta["side"]
                    peer_b = {"A": 0x42, "B": 0x41, "S": 0x53}[side]
                    for t in sc.meta["rec"]:
                        if t[0] == "reflect-variant":
                            if t[2].startswith("ok"):
                                return "own element reflected in another spelling (leading zero byte stripped / added) under label %#x returned a key" % t[1]
                            continue
                        if t[0] == "reflect":
                            _, v, o = t
                            if o.startswith("ok"):
                                return "reflected own element under label %#x returned a key" % v
                            if v == peer_b and o != "raise:ReflectionThwarted":
                                return "own element under the accepted label did not raise ReflectionThwarted: %s" % o
                            continue
                        v, o = t
                        if v == peer_b:
                            if not o.startswith("ok"):
                                return "valid peer message refused: %s" % o
                            continue
                        if o.startswith("ok"):
                            return "finish() returned a key for side byte %r" % (v,)
                        if side in "AB" and o != "raise:OffSides":
                            return "A/B instance: side byte %r raised %s, not OffSides" % (v, o)
                        if side == "S" and v in (0x41, 0x42) and o != "raise:OffSides":
                            return "Symmetric instance: side byte %r raised %s, not OffSides" % (v, o)
                    return None
                sc.pred = pred
                out.append(sc)
    return out
