"""Shared prelude (groups, parameter sets) and helpers for scenario generators."""
import os, sys
from binascii import hexlify, unhexlify
HERE = os.path.dirname(os.path.abspath(__file__))
sys.path.insert(0, HERE)
from engine import Scenario, EXACT, CLASS, NONE
from impl import Impl
import refmath


def hx(b):
    return hexlify(bytes(b)).decode() if b else "-"


def unhx(s):
    return b"" if s == "-" else unhexlify(s)


def payload(out):
    """bytes payload of an `ok <hex> ...` line, or None"""
    if not out.startswith("ok"):
        return None
    parts = out.split()
    return unhx(parts[1]) if len(parts) > 1 else b""


PASSWORDS = [b"", b"p", b"password", b"\x00", b"\x00\x00pw\x00", b"\xff\xfe\x80 caf\xc3\xa9", b"x" * 64, b"y" * 65,
             b"long password " * 12, bytes(range(256))]
IDS = [b"", b"alice", b"bob", b"\x00", b"a" * 70, b"\xc3\xa9\xff", b"ab", b"c", b"a", b"bc"]

TOY_INT = [(23, 11, 2), (23, 11, 4), (47, 23, 2), (59, 29, 4), (2039, 1019, 4), (263, 131, 2), (1019, 509, 4)]
TOY_Q2 = [(7, 2, 6), (23, 2, 22), (3, 2, 2)]
# a custom group of cryptographic shape whose widths are NOT those of the shipped sets: q is the first prime after
# 2^300 + 0x5eed (301 bits = 38 bytes: wider than 32 bytes, not a multiple of 8 or of 4 bits), p = k*q + 1 the first
# such prime of 523 bits (66 bytes, top byte 0x04), g = 2^((p-1)/q) mod p.  Behaviour keyed on "scalars are at most 32
# bytes", "bit lengths are byte aligned" or "bit lengths are nibble aligned" shows here and on no shipped set.
MID_INT = [(13729595320261219429963801598162786434538870600286610818788926918525901100996733046801685225137451462200634615488638700839962737402035742696138522548244331221,
            2037035976334486086268445688409378161051468393665936250636140449354381299763336706183421719,
            9903118368980371843696873690165242584634260922441104284303083016725058811600591328431048748429239354146456237626896913259803046431817933999281884176650962541)]


def harvest_constants():
    """integer and bytes literals occurring in the library source: used as extra edge values (scalars,
    entropy, passwords, identities), so that behaviour keyed on a magic value written in the code is exercised"""
    import ast
    repo = os.environ.get("VERIF_REPO", "/repo")
    ints, bts = set(), set()
    base = os.path.join(repo, "src", "spake2")
    for d, _, fs in os.walk(base):
        if os.sep + "test" in d:
            continue
        for f in fs:
            if not f.endswith(".py") or f == "_version.py" or f == "_verif_hooks.py":
                continue
            try:
                tree = ast.parse(open(os.path.join(d, f)).read())
            except SyntaxError:
                continue
            for n in ast.walk(tree):
                if isinstance(n, ast.Constant):
                    if isinstance(n.value, bool):
                        continue
                    if isinstance(n.value, int):
                        ints.add(abs(n.value))
                    elif isinstance(n.value, bytes) and len(n.value) <= 64:
                        bts.add(n.value)
                    elif isinstance(n.value, str) and 0 < len(n.value) <= 32 and "\n" not in n.value and " " not in n.value.strip():
                        try:
                            bts.add(n.value.encode("ascii"))
                        except UnicodeEncodeError:
                            pass
    return sorted(ints), sorted(bts)


HARVEST_INTS, HARVEST_BYTES = harvest_constants()


class PS:
    """a parameter set known to the prelude"""
    def __init__(self, pid, gid, kind, name, q, ssize, esize, seeds=None, toy=False, curve=None, pqg=None):
        self.pid, self.gid, self.kind, self.name = pid, gid, kind, name
        self.q, self.ssize, self.esize = q, ssize, esize
        self.seeds, self.toy, self.curve, self.pqg = seeds, toy, curve, pqg
        self.base = None   # name of the parameter set this one is a one-seed variant of


class World:
    def __init__(self, rng, want=("shipped", "custom", "midint", "toyint", "toyed")):
        self.rng = rng
        self.im = Impl()
        self.prelude = []
        self.prelude_out = []
        self._sid = 0
        self._eid = 0
        self.groups = {}
        self.ps = {}
        self.gs = {}       # name -> PS-like record of a group object (pid None): usable without any parameter set
        self.notes = []
        gid = 0
        pid = 0
        if "shipped" in want or "custom" in want:
            for name in ("ed", "1024", "2048", "3072"):
                self.pre("group %d pub %s" % (gid, name))
                self.groups[name] = gid
                self.gs[name] = self.mkps(None, gid, "ed" if name == "ed" else "int", name)
                gid += 1
        if "shipped" in want:
            for name in ("ed", "1024", "2048", "3072"):
                self.pre("params %d shipped %s" % (pid, name))
                self.ps[name] = self.mkps(pid, self.groups[name], "ed" if name == "ed" else "int", name)
                pid += 1
        if "custom" in want:
            for name, seeds, key, base in (("ed", (b"M2", b"N", b"symmetric"), "ed/altM", "ed"), ("ed", (b"M", b"N2", b"symmetric"), "ed/altN", "ed"),
                                           ("ed", (b"M", b"N", b"sym2"), "ed/altS", "ed"), ("1024", (b"", b"\x00", b"x" * 70), "1024/custom", None),
                                           # seed pairs whose concatenations coincide (M||N = "MNN" both ways)
                                           ("ed", (b"N", b"M", b"symmetric"), "ed/swapMN", None),
                                           ("ed", (b"M", b"NN", b"symmetric"), "ed/shift1", None), ("ed", (b"MN", b"N", b"symmetric"), "ed/shift2", None)):
                self.pre("params %d %d %s %s %s" % (pid, self.groups[name], hx(seeds[0]), hx(seeds[1]), hx(seeds[2])))
                self.ps[key] = self.mkps(pid, self.groups[name], "ed" if name == "ed" else "int", key, seeds=seeds)
                self.ps[key].base = base
                pid += 1
        if "edgen" in want:
            self.pre("group %d ed" % gid)
            self.groups["edgen"] = gid
            self.pre("params %d %d 4d 4e 73796d6d6574726963" % (pid, gid))
            self.ps["edgen"] = self.mkps(pid, gid, "ed", "edgen")
            gid += 1
            pid += 1
        if "midint" in want:
            for (p, q, g) in MID_INT:
                name = "mid%d_%d" % (p.bit_length(), q.bit_length())
                if self.pre("group %d int %d %d %d" % (gid, p, q, g)) == "ok":
                    self.groups[name] = gid
                    self.gs[name] = self.mkps(None, gid, "int", name, pqg=(p, q, g))
                    if self.pre("params %d %d 4d 4e 73796d6d6574726963" % (pid, gid)) == "ok":
                        self.ps[name] = self.mkps(pid, gid, "int", name, seeds=(b"M", b"N", b"symmetric"), pqg=(p, q, g))
                    pid += 1
                gid += 1
        if "toyint" in want:
            for (p, q, g) in TOY_INT:
                out = self.pre("group %d int %d %d %d" % (gid, p, q, g))
                name = "toy%d_%d_%d" % (p, q, g)
                if out == "ok":
                    self.groups[name] = gid
                    try:
                        self.gs[name] = self.mkps(None, gid, "int", name, toy=True, pqg=(p, q, g))
                    except Exception as e:
                        self.notes.append("%s: %s" % (name, e))
                    main = None
                    for seeds in ((b"M", b"N", b"symmetric"), (b"m1", b"n1", b"s1"), (b"a", b"b", b"c"), (b"m2", b"n2", b"s2")):
                        o = self.pre("params %d %d %s %s %s" % (pid, gid, hx(seeds[0]), hx(seeds[1]), hx(seeds[2])))
                        pid += 1
                        if o == "ok":
                            try:
                                self.ps[name] = main = self.mkps(pid - 1, gid, "int", name, seeds=seeds, toy=True, pqg=(p, q, g))
                                break
                            except Exception as e:  # arbitrary_element(b"") may fail on toy groups (K3)
                                self.notes.append("%s: %s" % (name, e))
                    if main is not None:
                        # same group, one blinding seed changed (for C02 / C09)
                        for which in (0, 1, 2):
                            for alt in (b"x1", b"x2", b"x3", b"x4"):
                                seeds = list(main.seeds)
                                seeds[which] = alt
                                if self.im.run("g.arb %d %s" % (gid, hx(alt))) == self.im.run("g.arb %d %s" % (gid, hx(main.seeds[which]))):
                                    continue      # same element in a tiny group: not a mismatch
                                o = self.pre("params %d %d %s %s %s" % (pid, gid, hx(seeds[0]), hx(seeds[1]), hx(seeds[2])))
                                pid += 1
                                if o == "ok":
                                    self.ps["%s/alt%s" % (name, "MNS"[which])] = self.mkps(pid - 1, gid, "int", name + "/alt" + "MNS"[which], seeds=tuple(seeds), toy=True, pqg=(p, q, g))
                                    self.ps["%s/alt%s" % (name, "MNS"[which])].base = name
                                    break
                gid += 1
        if "toyint" in want:
            # degenerate but valid groups of order 2 (p = 3 mod 4, g = p-1 a non-residue): group objects only, no
            # parameter sets (every blinding element would be the generator).  Anything that assumes "members of the
            # subgroup are squares" or an odd order shows here.
            for (p, q, g) in TOY_Q2:
                name = "toy%d_%d_%d" % (p, q, g)
                if self.pre("group %d int %d %d %d" % (gid, p, q, g)) == "ok":
                    self.groups[name] = gid
                    self.gs[name] = self.mkps(None, gid, "int", name, toy=True, pqg=(p, q, g))
                gid += 1
        if "toyed" in want:
            for (Q, d, L) in refmath.TOY_CURVES[:2]:
                cv = refmath.toy_curve(Q, d, L)
                out = self.pre("group %d edtoy %d %d %d %d %d %d" % ((gid,) + cv))
                name = "toyed%d" % Q
                if out == "ok":
                    self.groups[name] = gid
                    self.gs[name] = self.mkps(None, gid, "ed", name, toy=True, curve=cv)
                    o = self.pre("params %d %d 4d 4e 73796d6d6574726963" % (pid, gid))
                    if o == "ok":
                        self.ps[name] = self.mkps(pid, gid, "ed", name, toy=True, curve=cv)
                    pid += 1
                gid += 1
        self.next_gid, self.next_pid = gid, pid

    def pre(self, line):
        out = self.im.run(line)
        self.prelude.append(line)
        self.prelude_out.append(out)
        return out

    def mkps(self, pid, gid, kind, name, seeds=None, toy=False, curve=None, pqg=None):
        o = self.im.run("g.sizes %d" % gid).split()
        return PS(pid, gid, kind, name, int(o[3]), int(o[1]), int(o[2]), seeds, toy, curve, pqg)

    def sid(self):
        self._sid += 1
        return self._sid

    def eid(self):
        self._eid += 1
        return self._eid

    # ------------------------------------------------------------------
    def entropy_for(self, ps, x, redraws=0, extra=b""):
        """an entropy stream that makes random_scalar return x (after `redraws` rejected draws)"""
        if ps.kind == "ed":
            return x.to_bytes(64, "big") + extra
        nb = ps.ssize
        return b"\xff" * (nb * redraws) + x.to_bytes(nb, "big") + extra

    def base_edges(self, ps):
        q = ps.q
        # the top bit of the order: scalars in [2^(bits-1), q) are the ones a loop over "bits - 1" positions truncates
        top = 1 << (q.bit_length() - 1)
        return [0, 1, 2, q - 1, q - 2, (q - 1) // 2, (q + 1) // 2, top % q, (top + 1) % q, top - 1]

    def edge_scalars(self, ps):
        """base edge scalars first, then magic values written in the source (and neighbours), reduced into [0, q)"""
        q = ps.q
        extra = []
        for c in HARVEST_INTS:
            if 2 < c:
                extra += [c % q, (c + 1) % q, (c - 1) % q]
            if 8 <= c <= 4096:
                # a small literal may be a bit count / window size: scalars at that power of two
                extra += [(1 << c) % q, ((1 << c) + 1) % q, ((1 << c) - 1) % q]
        seen, out = set(), []
        for v in self.base_edges(ps) + extra:
            if v not in seen:
                seen.add(v)
                out.append(v)
        return out

    def scalar(self, ps, edge_prob=0.3):
        r = self.rng
        u = r.random()
        if u < edge_prob * 0.7:
            return r.choice(self.base_edges(ps)) % ps.q
        if u < edge_prob:
            return r.choice(self.edge_scalars(ps)) % ps.q
        return r.randrange(ps.q)

    def scenario(self, name, tags=()):
        sc = LiveScenario(self, name, tags)
        return sc

    def ids_for(self, side):
        r = self.rng
        if HARVEST_BYTES and r.random() < 0.15:
            return (r.choice(HARVEST_BYTES), r.choice(HARVEST_BYTES))
        if r.random() < 0.3:
            return (b"", b"")
        return (r.choice(IDS), r.choice(IDS))

    def password(self):
        r = self.rng
        if HARVEST_BYTES and r.random() < 0.15:
            return r.choice(HARVEST_BYTES)
        if r.random() < 0.6:
            return r.choice(PASSWORDS)
        return bytes(r.randrange(256) for _ in range(r.choice([1, 2, 7, 31, 32, 33, 55, 56, 63, 64, 65, 100])))


class LiveScenario(Scenario):
    """a scenario whose lines are executed on the implementation while it is built
    (later lines may depend on earlier outputs)"""
    __slots__ = ()

    def __init__(self, w, name, tags=()):
        Scenario.__init__(self, name, tags)
        self.w = w
        self.impl_out = []

    def do(self, line, mode=EXACT):
        self.op(line, mode)
        out = self.w.im.run(line)
        self.impl_out.append(out)
        return out

    # convenience ------------------------------------------------------
    def new(self, side, ps, pw, idA, idB, ent, mode=EXACT):
        s = self.w.sid()
        self.do("new %d %s %d %s %s %s %s" % (s, side, ps.pid, hx(pw), hx(idA), hx(idB), hx(ent)), mode)
        return s

    def start(self, s, mode=EXACT):
        return self.do("start %d" % s, mode)

    def finish(self, s, msg, mode=EXACT):
        return self.do("finish %d %s" % (s, hx(msg)), mode)

    def cycle(self, s, side, ps, mode=EXACT):
        """serialize + restore into a fresh session id; returns new sid (or old on failure)"""
        o = self.do("ser %d" % s, mode)
        data = payload(o)
        if data is None:
            return s
        n = self.w.sid()
        r = self.do("restore %d %s %d %s" % (n, side, ps.pid, hx(data)), mode)
        return n if r == "ok" else s
