#!/bin/sh
# tools/try_seed.sh <seed-id> [property] : apply one seeded change to a scratch worktree of /repo and run one quick
# check against it (evidence of the unchanged tree is preserved)
HERE="$(cd "$(dirname "$0")/.." && pwd)"
S=$1; P=${2:-$(echo $S | cut -c1-3)}
W=/tmp/try_seed_$$
git -C /repo worktree add -q $W HEAD || exit 2
git -C $W apply $HERE/seeded/$S/patch.diff || { git -C /repo worktree remove --force $W; exit 2; }
cp $HERE/evidence/$P.json /tmp/try_seed_ev_$$.json
(cd $HERE && VERIF_REPO=$W ./check $P 2>&1 | grep -v "^KNOWN" | tail -n ${TAIL:-4} | cut -c1-400)
cp /tmp/try_seed_ev_$$.json $HERE/evidence/$P.json; rm -f /tmp/try_seed_ev_$$.json
git -C /repo worktree remove --force $W
