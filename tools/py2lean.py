#!/usr/bin/env python3
"""Tie A: regenerate lean/Spake2Model/Gen/*.lean from /repo's current sources.

A deliberately tiny Python -> Lean translator.  It understands integer
expressions, tuple (un)packing, one-armed `if` guarding assignments,
`if c: return a` followed by `return b`, conditional expressions, the
`n==0 / n>>1 / n&1` double-and-add recursion, and module-level integer
constants.  Anything else stops the translation with a named error
(exit status 3): that is a *broken obligation* and is handled by the
verdict rules of ./check, never silently skipped.

Every free global used by a function (Q, L, d, I, ...) becomes a leading
explicit parameter of the generated Lean function, so that the theorems can
be stated for every curve and instantiated at the shipped constants (and at
toy curves by the correspondence check).
"""
import ast, hashlib, json, os, re, sys

REPO = os.environ.get("VERIF_REPO", "/repo")
SRC = os.path.join(REPO, "src", "spake2")
OUT = os.path.join(os.path.dirname(os.path.abspath(__file__)), "..", "lean", "Spake2Model", "Gen")


class Untranslatable(Exception):
    pass


def die(where, node, why):
    raise Untranslatable("%s: line %s: %s" % (where, getattr(node, "lineno", "?"), why))


# ---------------------------------------------------------------------------------------
# expression translation
# ---------------------------------------------------------------------------------------

BINOPS = {ast.Add: "+", ast.Sub: "-", ast.Mult: "*"}
CMPOPS = {ast.Eq: "==", ast.NotEq: "!=", ast.Lt: "<", ast.LtE: "<=", ast.Gt: ">", ast.GtE: ">="}
RENAME = {"_": "u_", "end": "end_", "from": "from_", "at": "at_", "fun": "fun_", "λ": "lam_"}


class Ctx:
    def __init__(self, where, fnsigs, globals_int, attr_map=None, derived=None):
        self.derived = derived if derived is not None else {}   # module constant name -> (lean name, free globals)
        self.where = where
        self.fnsigs = fnsigs          # name -> FnInfo (already translated functions)
        self.globals_int = globals_int  # names of module-level integer constants
        self.attr_map = attr_map or {}  # "self.p" -> "p"
        self.free = []                # free globals used (ordered)
        self.locals = set()
        self.types = {}               # local var -> 'int' | 'bool' | 'tuple'

    def use_global(self, name):
        if name not in self.free:
            self.free.append(name)


class FnInfo:
    def __init__(self, name, lean_name, free, recursive=False):
        self.name, self.lean_name, self.free, self.recursive = name, lean_name, free, recursive


GLOBAL_ORDER = ["Q", "L", "d", "I", "By", "Bx"]


def canon(free):
    """global parameters in a fixed order, so that reordering statements keeps signatures"""
    return sorted(free, key=lambda g: (GLOBAL_ORDER.index(g) if g in GLOBAL_ORDER else 99, g))


def lname(n):
    return RENAME.get(n, n)


def is_bool_expr(e, cx):
    if isinstance(e, ast.Compare):
        return True
    if isinstance(e, ast.BoolOp):
        return all(is_bool_expr(v, cx) for v in e.values)
    if isinstance(e, ast.UnaryOp) and isinstance(e.op, ast.Not):
        return True
    if isinstance(e, ast.Constant) and isinstance(e.value, bool):
        return True
    if isinstance(e, ast.Call) and isinstance(e.func, ast.Name) and e.func.id == "bool":
        return True
    if isinstance(e, ast.Name) and cx.types.get(e.id) == "bool":
        return True
    return False


def tb(e, cx):
    """translate as a Bool (Python truthiness of ints: != 0)"""
    if isinstance(e, ast.Compare):
        if len(e.ops) == 1:
            op = type(e.ops[0])
            if op not in CMPOPS:
                die(cx.where, e, "comparison operator %s" % op.__name__)
            l, r = e.left, e.comparators[0]
            if is_bool_expr(l, cx) and is_bool_expr(r, cx):
                return "(%s %s %s)" % (tb(l, cx), CMPOPS[op], tb(r, cx))
            return "(decide (%s %s %s))" % (tx(l, cx), {"==": "=", "!=": "≠", "<=": "≤", ">=": "≥"}.get(CMPOPS[op], CMPOPS[op]), tx(r, cx))
        # chained a <= b < c
        parts = []
        left = e.left
        for op, right in zip(e.ops, e.comparators):
            parts.append(tb(ast.Compare(left=left, ops=[op], comparators=[right]), cx))
            left = right
        return "(" + " && ".join(parts) + ")"
    if isinstance(e, ast.BoolOp):
        j = " && " if isinstance(e.op, ast.And) else " || "
        return "(" + j.join(tb(v, cx) for v in e.values) + ")"
    if isinstance(e, ast.UnaryOp) and isinstance(e.op, ast.Not):
        return "(!%s)" % tb(e.operand, cx)
    if isinstance(e, ast.Constant) and isinstance(e.value, bool):
        return "true" if e.value else "false"
    if isinstance(e, ast.Call) and isinstance(e.func, ast.Name) and e.func.id == "bool" and len(e.args) == 1:
        return tb(e.args[0], cx)
    if isinstance(e, ast.Name) and cx.types.get(e.id) == "bool":
        return lname(e.id)
    # integer truthiness
    return "(decide (%s ≠ 0))" % tx(e, cx)


def tx(e, cx):
    """translate an integer- (or tuple-) valued expression"""
    if isinstance(e, ast.BinOp):
        op = type(e.op)
        if op in BINOPS:
            return "(%s %s %s)" % (tx(e.left, cx), BINOPS[op], tx(e.right, cx))
        if op is ast.Mod:
            if isinstance(e.left, ast.Constant) and isinstance(e.left.value, str):
                die(cx.where, e, "string formatting")
            return "(Int.emod %s %s)" % (tx(e.left, cx), tx(e.right, cx))
        if op is ast.FloorDiv:
            return "(Int.fdiv %s %s)" % (tx(e.left, cx), tx(e.right, cx))
        if op is ast.Pow:
            if isinstance(e.right, ast.Constant) and isinstance(e.right.value, int) and e.right.value >= 0:
                return "(%s ^ %d)" % (tx(e.left, cx), e.right.value)
            die(cx.where, e, "power with non-literal exponent")
        if op is ast.RShift:
            return "(Py.shr %s %s)" % (tx(e.left, cx), tx(e.right, cx))
        if op is ast.LShift:
            return "(Py.shl %s %s)" % (tx(e.left, cx), tx(e.right, cx))
        if op is ast.BitAnd:
            return "(Py.band %s %s)" % (tx(e.left, cx), tx(e.right, cx))
        if op is ast.BitOr:
            return "(Py.bor %s %s)" % (tx(e.left, cx), tx(e.right, cx))
        die(cx.where, e, "binary operator %s" % op.__name__)
    if isinstance(e, ast.UnaryOp):
        if isinstance(e.op, ast.USub):
            return "(-%s)" % tx(e.operand, cx)
        die(cx.where, e, "unary operator")
    if isinstance(e, ast.Constant):
        if isinstance(e.value, bool):
            die(cx.where, e, "bool used as int")
        if isinstance(e.value, int):
            return "(%d : Int)" % e.value if e.value >= 0 else "(-%d : Int)" % -e.value
        die(cx.where, e, "constant of type %s" % type(e.value).__name__)
    if isinstance(e, ast.Name):
        if e.id in cx.locals:
            return lname(e.id)
        if e.id in cx.globals_int:
            cx.use_global(e.id)
            return lname(e.id)
        if e.id in cx.derived:
            # a derived module constant (e.g. a hoisted `_2d = (2*d) % Q`) is *inlined*: module constants
            # are evaluated once from other constants by pure integer code, so its value is the value of
            # its defining expression wherever it is read (the `k_<name>` definition is still emitted; a
            # second binding of the same name makes Lean reject the duplicate definition)
            txt, free = cx.derived[e.id]
            for g in free:
                cx.use_global(g)
            return txt
        die(cx.where, e, "unknown name %s" % e.id)
    if isinstance(e, ast.Attribute):
        key = ast.unparse(e)
        if key in cx.attr_map:
            v = cx.attr_map[key]
            if v not in cx.locals:
                cx.locals.add(v)
            return v
        die(cx.where, e, "attribute %s" % key)
    if isinstance(e, (ast.Tuple, ast.List)):
        return "(" + ", ".join(tx(x, cx) for x in e.elts) + ")"
    if isinstance(e, ast.Subscript):
        if isinstance(e.slice, ast.Constant) and isinstance(e.slice.value, int) and isinstance(e.value, ast.Name):
            v = tx(e.value, cx)
            arity = cx.types.get(e.value.id)
            if arity == "pair":
                return "%s.%d" % (v, e.slice.value + 1) if e.slice.value in (0, 1) else die(cx.where, e, "index")
            die(cx.where, e, "subscript of non-pair %s" % e.value.id)
        die(cx.where, e, "subscript")
    if isinstance(e, ast.IfExp):
        return "(if %s then %s else %s)" % (tb(e.test, cx), tx(e.body, cx), tx(e.orelse, cx))
    if isinstance(e, ast.Call):
        if isinstance(e.func, ast.Name):
            f = e.func.id
            if f == "pow" and len(e.args) == 3:
                return "(Py.pow3 %s %s %s)" % tuple(tx(a, cx) for a in e.args)
            if f == "pow" and len(e.args) == 2 and isinstance(e.args[1], ast.Constant):
                return "(%s ^ %d)" % (tx(e.args[0], cx), e.args[1].value)
            if f == "divmod" and len(e.args) == 2 and not e.keywords:
                # divmod(a, b) == (a // b, a % b) for Python ints
                a, b = tx(e.args[0], cx), tx(e.args[1], cx)
                return "((Int.fdiv %s %s), (Int.emod %s %s))" % (a, b, a, b)
            if f == "int" and len(e.args) == 1:
                a = e.args[0]
                # int(math.ceil(x / y))
                if (isinstance(a, ast.Call) and ast.unparse(a.func) == "math.ceil" and len(a.args) == 1
                        and isinstance(a.args[0], ast.BinOp) and isinstance(a.args[0].op, ast.Div)):
                    return "(Py.ceilDiv %s %s)" % (tx(a.args[0].left, cx), tx(a.args[0].right, cx))
                # int((256/8)+16) and friends: exact float arithmetic on literals only
                try:
                    v = eval(compile(ast.Expression(a), "<const>", "eval"), {"__builtins__": {}})
                except Exception:
                    die(cx.where, e, "int() of a non-literal expression")
                if v != int(v):
                    die(cx.where, e, "int() of a non-integral literal")
                return "(%d : Int)" % int(v)
            if f in cx.fnsigs:
                info = cx.fnsigs[f]
                for g in info.free:
                    cx.use_global(g)
                args = [lname(g) for g in info.free]
                if info.recursive:
                    die(cx.where, e, "call of recursive function %s outside its own wrapper" % f)
                args += [tx(a, cx) for a in e.args]
                return "(%s %s)" % (info.lean_name, " ".join(args))
            die(cx.where, e, "call of %s" % f)
        if isinstance(e.func, ast.Attribute) and e.func.attr == "bit_length" and not e.args:
            return "(Py.bitLength %s)" % tx(e.func.value, cx)
        die(cx.where, e, "call")
    if isinstance(e, ast.BoolOp) and isinstance(e.op, ast.Or) and len(e.values) == 2:
        # `a or b` on ints
        a, b = (tx(v, cx) for v in e.values)
        return "(if decide (%s ≠ 0) then %s else %s)" % (a, a, b)
    die(cx.where, e, "expression %s" % type(e).__name__)


# ---------------------------------------------------------------------------------------
# statements / functions
# ---------------------------------------------------------------------------------------

def assigned_names(stmts):
    out = []
    for s in stmts:
        if isinstance(s, ast.Assign):
            for t in s.targets:
                if isinstance(t, ast.Name):
                    out.append(t.id)
                elif isinstance(t, ast.Tuple):
                    out += [x.id for x in t.elts]
        elif isinstance(s, ast.AugAssign):
            out.append(s.target.id)
    return out


def body_to_lean(stmts, cx, indent, asserts):
    """returns list of lines; the last statement must return"""
    lines = []
    pad = " " * indent
    i = 0
    while i < len(stmts):
        s = stmts[i]
        rest = stmts[i + 1:]
        if isinstance(s, ast.Expr) and isinstance(s.value, ast.Constant) and isinstance(s.value.value, str):
            i += 1
            continue
        if isinstance(s, ast.Assert):
            asserts.append(ast.unparse(s.test))
            i += 1
            continue
        if isinstance(s, ast.Assign):
            if len(s.targets) != 1:
                die(cx.where, s, "multiple assignment targets")
            t = s.targets[0]
            rhs = tx(s.value, cx)
            if isinstance(t, ast.Tuple):
                names = [x.id for x in t.elts]
                for n in names:
                    cx.locals.add(n)
                    cx.types[n] = "int"
                lines.append("%slet (%s) := %s" % (pad, ", ".join(lname(n) for n in names), rhs))
            elif isinstance(t, ast.Name):
                cx.locals.add(t.id)
                if isinstance(s.value, (ast.List, ast.Tuple)) and len(s.value.elts) == 2:
                    cx.types[t.id] = "pair"
                elif is_bool_expr(s.value, cx):
                    cx.types[t.id] = "bool"
                    rhs = tb(s.value, cx)
                else:
                    cx.types.setdefault(t.id, "int")
                lines.append("%slet %s := %s" % (pad, lname(t.id), rhs))
            else:
                die(cx.where, s, "assignment target")
            i += 1
            continue
        if isinstance(s, ast.AugAssign):
            op = type(s.op)
            if op not in BINOPS or not isinstance(s.target, ast.Name):
                die(cx.where, s, "augmented assignment")
            n = lname(s.target.id)
            lines.append("%slet %s := (%s %s %s)" % (pad, n, n, BINOPS[op], tx(s.value, cx)))
            i += 1
            continue
        if isinstance(s, ast.If):
            # (d) if hasattr(x, "bit_length"): <return ...>   -- python>=2.7: condition is True
            if (isinstance(s.test, ast.Call) and isinstance(s.test.func, ast.Name) and s.test.func.id == "hasattr"
                    and len(s.test.args) == 2 and isinstance(s.test.args[1], ast.Constant)
                    and s.test.args[1].value == "bit_length"):
                return lines + body_to_lean(s.body, cx, indent, asserts)
            # (a) if c: return X            (then the rest is the else branch)
            if len(s.body) == 1 and isinstance(s.body[0], ast.Return) and not s.orelse:
                c = tb(s.test, cx)
                r = s.body[0].value
                rv = tb(r, cx) if is_bool_expr(r, cx) else tx(r, cx)
                lines.append("%sif %s then %s else" % (pad, c, rv))
                lines += body_to_lean(rest, cx, indent, asserts)
                return lines
            # (b) if c: v = e  [; w = f]    one-armed, only assignments to already-bound locals
            if not s.orelse and all(isinstance(b, (ast.Assign, ast.AugAssign)) for b in s.body):
                c = tb(s.test, cx)
                for b in s.body:
                    if isinstance(b, ast.AugAssign):
                        if type(b.op) not in BINOPS or not isinstance(b.target, ast.Name):
                            die(cx.where, b, "augmented assignment")
                        n = b.target.id
                        val = "(%s %s %s)" % (lname(n), BINOPS[type(b.op)], tx(b.value, cx))
                    else:
                        if len(b.targets) != 1 or not isinstance(b.targets[0], ast.Name):
                            die(cx.where, b, "conditional assignment target")
                        n = b.targets[0].id
                        val = tx(b.value, cx)
                    if n not in cx.locals:
                        die(cx.where, b, "conditional assignment to unbound %s" % n)
                    lines.append("%slet %s := if %s then %s else %s" % (pad, lname(n), c, val, lname(n)))
                if len(s.body) > 1:
                    # later assignments must not be read by the condition or by each other
                    names = assigned_names(s.body)
                    used = {x.id for x in ast.walk(s.test) if isinstance(x, ast.Name)}
                    for b in s.body[1:]:
                        used |= {x.id for x in ast.walk(b.value) if isinstance(x, ast.Name)}
                    if set(names[:-1]) & used:
                        die(cx.where, s, "dependent conditional assignments")
                i += 1
                continue
            # (c) if c: ... else: ...   with assignments in both arms to the same single variable
            if (len(s.body) == 1 and len(s.orelse) == 1 and isinstance(s.body[0], ast.Assign)
                    and isinstance(s.orelse[0], ast.Assign)
                    and ast.unparse(s.body[0].targets[0]) == ast.unparse(s.orelse[0].targets[0])
                    and isinstance(s.body[0].targets[0], ast.Name)):
                n = s.body[0].targets[0].id
                c = tb(s.test, cx)
                a, b = tx(s.body[0].value, cx), tx(s.orelse[0].value, cx)
                cx.locals.add(n)
                cx.types.setdefault(n, "int")
                lines.append("%slet %s := if %s then %s else %s" % (pad, lname(n), c, a, b))
                i += 1
                continue
            die(cx.where, s, "if statement of unsupported shape")
        if isinstance(s, ast.Return):
            r = s.value
            rv = tb(r, cx) if is_bool_expr(r, cx) else tx(r, cx)
            lines.append("%s%s" % (pad, rv))
            return lines
        die(cx.where, s, "statement %s" % type(s).__name__)
    die(cx.where, stmts[-1] if stmts else None, "function body does not end in return")


TYPES = {"int": "Int", "P4": "Int × Int × Int × Int", "P2": "Int × Int", "bool": "Bool"}


def check_no_shadowing(cx, fn):
    """a global (or a global mentioned by an inlined derived constant) must not also be a local name:
    the generated Lean binds globals as parameters, which a `let` of the same name would capture"""
    clash = set(cx.free) & set(cx.locals)
    if clash:
        die(cx.where, fn, "local name shadows module constant: %s" % ", ".join(sorted(clash)))


def translate_function(fn, sig, cx_proto, where, attr_map=None, params_override=None):
    """sig = ([param types], return type).  returns (lean text, FnInfo)"""
    ptypes, rtype = sig
    cx = Ctx(where + ":" + fn.name, cx_proto["fns"], cx_proto["globals"], attr_map, cx_proto.get("derived"))
    params = params_override if params_override is not None else [a.arg for a in fn.args.args]
    if len(params) != len(ptypes):
        die(where, fn, "%s: expected %d parameters, found %d" % (fn.name, len(ptypes), len(params)))
    for p, t in zip(params, ptypes):
        cx.locals.add(p)
        cx.types[p] = {"P2": "pair"}.get(t, "int")
    for v in (attr_map or {}).values():
        cx.locals.add(v)
    asserts = []
    lean_name = fn.name.lstrip("_")
    # recognise the double-and-add recursion
    rec_calls = [n for n in ast.walk(fn) if isinstance(n, ast.Call) and isinstance(n.func, ast.Name) and n.func.id == fn.name]
    if rec_calls:
        return translate_ladder(fn, sig, cx, lean_name, asserts)
    body = body_to_lean(fn.body, cx, 2, asserts)
    check_no_shadowing(cx, fn)
    free = canon(cx.free)
    cx.free[:] = free
    hdr = "def %s %s%s : %s :=" % (
        lean_name,
        "".join("(%s : Int) " % lname(g) for g in free),
        " ".join("(%s : %s)" % (lname(p), TYPES[t]) for p, t in zip(params, ptypes)),
        TYPES[rtype])
    doc = "/-- translated from `%s` (%s)%s -/" % (
        fn.name, where, ("; python asserts (preconditions, checked by the model): " + "; ".join(asserts)) if asserts else "")
    return "\n".join([doc, hdr] + body) + "\n", FnInfo(fn.name, lean_name, free)


def translate_ladder(fn, sig, cx, lean_name, asserts):
    """
    def f(pt, n):
        assert n >= 0
        if n == 0: return BASE
        <straight-line code containing exactly one call f(pt, n >> 1) (or n // 2)>
    The recursive call becomes the variable `rec_`; the recursion is structural on fuel.
    """
    body = [s for s in fn.body if not (isinstance(s, ast.Expr) and isinstance(s.value, ast.Constant))]
    where = cx.where
    try:
        a, c = body[0], body[1]
        rest = body[2:]
        assert isinstance(a, ast.Assert) and ast.unparse(a.test) == "n >= 0"
        assert isinstance(c, ast.If) and ast.unparse(c.test) in ("n == 0", "not n") and len(c.body) == 1 and isinstance(c.body[0], ast.Return) and not c.orelse
        assert [x.arg for x in fn.args.args] == ["pt", "n"] and rest
    except (AssertionError, ValueError, AttributeError, IndexError):
        die(where, fn, "recursive function is not of the double-and-add shape")
    asserts.append("n >= 0")
    base = tx(c.body[0].value, cx)

    class Rep(ast.NodeTransformer):
        count = 0

        def visit_Call(self, node):
            self.generic_visit(node)
            if isinstance(node.func, ast.Name) and node.func.id == fn.name:
                if len(node.args) != 2 or ast.unparse(node.args[0]) != "pt" or ast.unparse(node.args[1]) not in ("n >> 1", "n // 2"):
                    die(where, node, "recursive call is not f(pt, n >> 1)")
                Rep.count += 1
                return ast.copy_location(ast.Name(id="rec_", ctx=ast.Load()), node)
            return node
    rest = [Rep().visit(st) for st in rest]
    if Rep.count != 1:
        die(where, fn, "expected exactly one recursive call, found %d" % Rep.count)
    cx.locals.add("rec_")
    cx.types["rec_"] = "int"
    lines = body_to_lean(rest, cx, 4, asserts)
    check_no_shadowing(cx, fn)
    free = canon(cx.free)
    fp = "".join("(%s : Int) " % lname(g) for g in free)
    fa = "".join(lname(g) + " " for g in free)
    txt = """/-- translated from `%s` (%s); python asserts (checked by the model): n >= 0.
The recursion `f(pt, n>>1)` is structural on `fuel`; `%s` supplies enough fuel. -/
def %sAux %s(pt : Int × Int × Int × Int) : Nat → Int → Int × Int × Int × Int
  | 0, _ => %s
  | fuel+1, n =>
    if decide (n = 0) then %s else
    let rec_ := %sAux %spt fuel (Py.shr n 1)
%s

def %s %s(pt : Int × Int × Int × Int) (n : Int) : Int × Int × Int × Int :=
  %sAux %spt (Py.bitLength n).toNat.succ n
""" % (fn.name, where, lean_name, lean_name, fp, base, base, lean_name, fa, "\n".join(lines), lean_name, fp, lean_name, fa)
    return txt, FnInfo(fn.name, lean_name, free)


def const_int(node, env):
    """evaluate a module-level integer literal expression *symbolically* to Lean text"""
    cx = Ctx("const", env["fns"], env["globals"], None, env.get("derived"))
    return tx(node, cx), cx.free


# ---------------------------------------------------------------------------------------
# module drivers
# ---------------------------------------------------------------------------------------

HEADER = """-- GENERATED by tools/py2lean.py from %s -- do not edit.
-- (the sha256 of each translated source is reported in the translator's JSON output and in the evidence;
--  it is deliberately not written here, so that edits which do not change the translation -- comments,
--  hand-modelled code -- leave this file, its proofs and the build untouched)%.0s
import Spake2Model.Py
set_option linter.unusedVariables false
namespace Spake2Model.Gen
"""


def read(name):
    path = os.path.join(SRC, name)
    src = open(path).read()
    return src, ast.parse(src), hashlib.sha256(src.encode()).hexdigest()


def find_fn(mod, name, klass=None):
    body = mod.body
    if klass:
        for n in mod.body:
            if isinstance(n, ast.ClassDef) and n.name == klass:
                body = n.body
                break
        else:
            raise Untranslatable("class %s not found" % klass)
    for n in body:
        if isinstance(n, ast.FunctionDef) and n.name == name:
            return n
    raise Untranslatable("function %s%s not found" % (klass + "." if klass else "", name))


def module_binding_counts(mod):
    """how often each name is bound at module level (assignments, defs, classes, imports, loop / with /
    except targets, walrus), plus names declared `global` inside functions or deleted: the translation reads a
    module constant / function from its single module-level binding, so a second binding must stop it"""
    counts = {}

    def bump(n, k=1):
        counts[n] = counts.get(n, 0) + k

    def visit(node, top):
        for ch in ast.iter_child_nodes(node):
            if isinstance(ch, (ast.FunctionDef, ast.AsyncFunctionDef, ast.ClassDef)):
                if top:
                    bump(ch.name)
                # inside: only `global` declarations matter
                for x in ast.walk(ch):
                    if isinstance(x, ast.Global):
                        for n in x.names:
                            bump(n, 2)
                continue
            if isinstance(ch, ast.Lambda):
                continue
            if isinstance(ch, ast.Name) and isinstance(ch.ctx, (ast.Store, ast.Del)):
                bump(ch.id, 1 if isinstance(ch.ctx, ast.Store) else 2)
            elif isinstance(ch, (ast.Import, ast.ImportFrom)):
                for a in ch.names:
                    bump((a.asname or a.name).split(".")[0], 2 if a.name == "*" else 1)
            elif isinstance(ch, ast.ExceptHandler) and ch.name:
                bump(ch.name)
            visit(ch, top)
    visit(mod, True)
    return counts


ED_SIGS = [
    ("inv", (["int"], "int")),
    ("xrecover", (["int"], "int")),
    ("xform_affine_to_extended", (["P2"], "P4")),
    ("xform_extended_to_affine", (["P4"], "P2")),
    ("double_element", (["P4"], "P4")),
    ("add_elements", (["P4", "P4"], "P4")),
    ("scalarmult_element_safe_slow", (["P4", "int"], "P4")),
    ("_add_elements_nonunfied", (["P4", "P4"], "P4")),
    ("scalarmult_element", (["P4", "int"], "P4")),
    ("isoncurve", (["P2"], "bool")),
    ("is_extended_zero", (["P4"], "bool")),
]
ED_CONSTS = ["Q", "L", "d", "I", "By", "Bx"]


def gen_ed25519():
    src, mod, h = read("ed25519_basic.py")
    env = {"fns": {}, "globals": set(), "derived": {}}
    out = [HEADER % ("src/spake2/ed25519_basic.py", h), "namespace Ed\n"]
    sigs = dict(ED_SIGS)
    bindings = module_binding_counts(mod)
    if any(isinstance(n, ast.ImportFrom) and any(a.name == "*" for a in n.names) for n in mod.body):
        raise Untranslatable("ed25519_basic.py: star import")

    def single(name, node):
        if bindings.get(name, 0) != 1:
            raise Untranslatable("ed25519_basic.py: line %d: %s is bound more than once at module level" % (node.lineno, name))
    # walk the module in source order so that constants may use earlier functions and vice versa
    for node in mod.body:
        if isinstance(node, ast.Assign) and len(node.targets) == 1 and isinstance(node.targets[0], ast.Name):
            name = node.targets[0].id
            if name in ED_CONSTS:
                single(name, node)
                txt, free = const_int(node.value, env)
                out.append("/-- module constant `%s = %s` -/\ndef %s : Int := %s\n" % (name, ast.unparse(node.value), lname(name) + "_c", txt_with_consts(txt, free)))
                env["globals"].add(name)
            elif name == "B":
                # B = [Bx % Q, By % Q]
                single(name, node)
                txt, free = const_int(node.value, env)
                out.append("/-- module constant `B = %s` -/\ndef B_c : Int × Int := %s\n" % (ast.unparse(node.value), txt_with_consts(txt, free)))
            else:
                # any other module-level integer / tuple constant (e.g. a hoisted `2*d % Q`): a *derived*
                # constant, emitted as a function of the base constants it mentions; untranslatable ones
                # (objects such as Base, Zero, _zero_bytes) belong to the hand-written model and are skipped
                try:
                    txt, free = const_int(node.value, env)
                except Untranslatable:
                    continue
                free = canon(free)
                ln = "k_" + name.lstrip("_")
                single(name, node)
                if name in env["derived"] or name in env["fns"]:
                    raise Untranslatable("ed25519_basic.py: line %d: module constant %s bound twice" % (node.lineno, name))
                out.append("/-- derived module constant `%s = %s` (inlined where it is read) -/\ndef %s %s:= %s\n" % (
                    name, ast.unparse(node.value), ln, "".join("(%s : Int) " % lname(g) for g in free), txt))
                env["derived"][name] = (txt, free)
        elif isinstance(node, ast.FunctionDef) and node.name in sigs:
            single(node.name, node)
            txt, info = translate_function(node, sigs[node.name], env, "ed25519_basic.py")
            # the cast in is_extended_zero: parameter named XYTZ
            out.append(txt)
            env["fns"][node.name] = info
    missing = [n for n, _ in ED_SIGS if n not in env["fns"]] + [c for c in ED_CONSTS if c not in env["globals"]]
    if missing:
        raise Untranslatable("ed25519_basic.py: missing definitions: %s" % ", ".join(missing))
    # remaining literals used by the hand-written model
    lits = {}
    for node in ast.walk(mod):
        if isinstance(node, ast.FunctionDef) and node.name == "arbitrary_element":
            for c in ast.walk(node):
                if isinstance(c, ast.Call) and ast.unparse(c.func) == "expand_arbitrary_element_seed":
                    lits["arb_seed_len"] = tx(c.args[1], Ctx("arbitrary_element", {}, set()))
                if isinstance(c, ast.Call) and ast.unparse(c.func) == "P.scalarmult":
                    lits["arb_cofactor"] = tx(c.args[0], Ctx("arbitrary_element", {}, set()))
        if isinstance(node, ast.FunctionDef) and node.name == "random_scalar":
            for c in ast.walk(node):
                if isinstance(c, ast.Call) and ast.unparse(c.func) == "entropy_f":
                    lits["random_scalar_bytes"] = tx(c.args[0], Ctx("random_scalar", {}, set()))
        if isinstance(node, ast.FunctionDef) and node.name == "negate" :
            for c in ast.walk(node):
                if isinstance(c, ast.Call) and ast.unparse(c.func) == "scalarmult_element":
                    cx = Ctx("negate", {}, {"L"})
                    lits["negate_scalar"] = tx(c.args[1], cx)
    for k in ("arb_seed_len", "arb_cofactor", "random_scalar_bytes", "negate_scalar"):
        if k not in lits:
            raise Untranslatable("ed25519_basic.py: literal %s not found" % k)
    out.append("/-- `int((256/8)+16)` in `arbitrary_element` -/\ndef arb_seed_len : Int := %s\n" % lits["arb_seed_len"])
    out.append("/-- the `8` of `P.scalarmult(8)` in `arbitrary_element` -/\ndef arb_cofactor : Int := %s\n" % lits["arb_cofactor"])
    out.append("/-- the `32+32` of `random_scalar` -/\ndef random_scalar_bytes : Int := %s\n" % lits["random_scalar_bytes"])
    out.append("/-- the scalar `Element.negate` multiplies by, as a function of L -/\ndef negate_scalar (L : Int) : Int := %s\n" % lits["negate_scalar"])
    out.append("end Ed\nend Spake2Model.Gen\n")
    return "\n".join(out), h


def txt_with_consts(txt, free):
    """inside constant definitions refer to earlier constants by their `_c` names"""
    # functions were emitted with explicit global parameters named Q, d, ...; constants are `Q_c`.
    import re
    for g in sorted(free, key=len, reverse=True):
        txt = re.sub(r"(?<![A-Za-z0-9_.])%s(?![A-Za-z0-9_])" % re.escape(lname(g)), lname(g) + "_c", txt)
    return txt


def gen_intgroup():
    src, mod, h = read("groups.py")
    out = [HEADER % ("src/spake2/groups.py", h), "namespace IntGroup\n"]
    env = {"fns": {}, "globals": set()}
    amap = {"self.p": "p", "self.q": "q", "e1._e": "e1", "e2._e": "e2", "e._e": "e"}
    # _add(self, e1, e2): last statement `return _Element(self, EXPR)`
    def elem_expr(fn, what):
        r = fn.body[-1]
        if not (isinstance(r, ast.Return) and isinstance(r.value, ast.Call) and ast.unparse(r.value.func) == "_Element"
                and len(r.value.args) == 2 and ast.unparse(r.value.args[0]) == "self"):
            die("groups.py", fn, "%s does not end in `return _Element(self, <expr>)`" % what)
        return r.value.args[1]
    def is_guard(s, depth=0):
        # isinstance/assert guards (modelled by hand): `assert ...`, `if c: raise ...`, docstrings, and calls
        # `self._helper(...)` of a method of the class that itself consists of such guards only (it cannot
        # return a value or bind anything the caller sees)
        if isinstance(s, ast.Assert) or (isinstance(s, ast.Expr) and isinstance(s.value, ast.Constant)):
            return True
        if isinstance(s, ast.If) and len(s.body) == 1 and isinstance(s.body[0], ast.Raise) and not s.orelse:
            return True
        if (depth == 0 and isinstance(s, ast.Expr) and isinstance(s.value, ast.Call)
                and isinstance(s.value.func, ast.Attribute) and isinstance(s.value.func.value, ast.Name)
                and s.value.func.value.id == "self" and not s.value.keywords
                and all(isinstance(a, ast.Name) for a in s.value.args)):
            try:
                helper = find_fn(mod, s.value.func.attr, "IntegerGroup")
            except Untranslatable:
                return False
            return bool(helper.body) and all(is_guard(b, 1) for b in helper.body)
        return False
    def guards(fn):
        # everything before the final return must be guards
        for s in fn.body[:-1]:
            if not is_guard(s):
                die("groups.py", s, "unexpected statement in %s" % fn.name)
    add = find_fn(mod, "_add", "IntegerGroup"); guards(add)
    cx = Ctx("groups.py:_add", {}, set(), amap); cx.locals |= {"p", "q", "e1", "e2"}
    out.append("/-- `IntegerGroup._add`: value of the returned element -/\ndef add (p : Int) (e1 e2 : Int) : Int := %s\n" % tx(elem_expr(add, "_add"), cx))
    sm = find_fn(mod, "_scalarmult", "IntegerGroup"); guards(sm)
    cx = Ctx("groups.py:_scalarmult", {}, set(), amap); cx.locals |= {"p", "q", "e1", "i"}
    out.append("/-- `IntegerGroup._scalarmult`: value of the returned element -/\ndef scalarmult (p q : Int) (e1 i : Int) : Int := %s\n" % tx(elem_expr(sm, "_scalarmult"), cx))
    mem = find_fn(mod, "_is_member", "IntegerGroup")
    # if not e._group is self: return False ; if pow(...) == 1: return True ; return False
    b = [s for s in mem.body if not (isinstance(s, ast.Expr))]
    cx = Ctx("groups.py:_is_member", {}, set(), amap); cx.locals |= {"p", "q", "e"}
    if (len(b) == 3 and isinstance(b[0], ast.If) and ast.unparse(b[0].test) in ("not e._group is self", "e._group is not self")
            and ast.unparse(b[0].body[0]) == "return False" and len(b[0].body) == 1 and not b[0].orelse):
        lines = body_to_lean(b[1:], cx, 2, [])
    elif (len(b) == 1 and isinstance(b[0], ast.Return) and isinstance(b[0].value, ast.BoolOp)
            and isinstance(b[0].value.op, ast.And) and len(b[0].value.values) >= 2
            and ast.unparse(b[0].value.values[0]) == "e._group is self"):
        # `return e._group is self and <test>`: the same-group test first (short-circuit), then <test>
        rest = b[0].value.values[1:]
        if not all(is_bool_expr(v, cx) for v in rest):
            die("groups.py", mem, "_is_member: non-boolean conjunct")
        lines = ["  " + (tb(rest[0], cx) if len(rest) == 1 else tb(ast.BoolOp(op=ast.And(), values=rest), cx))]
    else:
        die("groups.py", mem, "_is_member has an unexpected shape")
    out.append("/-- `IntegerGroup._is_member` (after the same-group test) -/\ndef is_member (p q : Int) (e : Int) : Bool :=\n%s\n" % "\n".join(lines))
    # constructor check
    init = find_fn(mod, "__init__", "IntegerGroup")
    ctor = [ast.unparse(s.test) for s in init.body if isinstance(s, ast.Assert) and "pow" in ast.unparse(s.test)]
    if ctor != ["pow(g, self.q, self.p) == 1"]:
        die("groups.py", init, "constructor order assertion changed: %r" % ctor)
    out.append("/-- the constructor's order assertion `pow(g, self.q, self.p) == 1` -/\ndef ctor_ok (p q g : Int) : Bool := decide ((Py.pow3 g q p) = 1)\n")
    # arbitrary_element arithmetic: r = (p-1)//q ; h = N % p ; element = pow(h, r, p)
    arb = find_fn(mod, "arbitrary_element", "IntegerGroup")
    stm = {}
    for st in arb.body:
        if not isinstance(st, ast.Assign):
            continue
        t = st.targets[0]
        if (isinstance(t, ast.Tuple) and len(t.elts) == 2 and all(isinstance(x, ast.Name) for x in t.elts)
                and isinstance(st.value, ast.Call) and ast.unparse(st.value.func) == "divmod" and len(st.value.args) == 2):
            # r, rem = divmod(a, b)  ==  r = a // b ; rem = a % b
            a, b_ = st.value.args
            new = {t.elts[0].id: ast.BinOp(left=a, op=ast.FloorDiv(), right=b_), t.elts[1].id: ast.BinOp(left=a, op=ast.Mod(), right=b_)}
        else:
            new = {ast.unparse(t): st.value}
        for k, v in new.items():
            if k in stm:
                die("groups.py", st, "arbitrary_element: %s bound twice" % k)
            stm[k] = v
    for k in ("r", "h", "element"):
        if k not in stm:
            die("groups.py", arb, "arbitrary_element: no binding of %s" % k)
    cx = Ctx("groups.py:arbitrary_element", {}, set(), amap); cx.locals |= {"p", "q", "r", "h", "n_"}
    r_txt = tx(stm["r"], cx)
    hv = stm["h"]
    if not (isinstance(hv, ast.BinOp) and isinstance(hv.op, ast.Mod) and ast.unparse(hv.left) == "bytes_to_number(processed_seed)"):
        die("groups.py", arb, "arbitrary_element: h is not bytes_to_number(processed_seed) % p")
    h_txt = "(Int.emod n_ %s)" % tx(hv.right, cx)
    el = stm["element"]
    if not (isinstance(el, ast.Call) and ast.unparse(el.func) == "_Element"):
        die("groups.py", arb, "arbitrary_element: element is not an _Element(...)")
    e_txt = tx(el.args[1], cx)
    asserts = [ast.unparse(s.test) for s in arb.body if isinstance(s, ast.Assert)]
    # the cofactor assertion is modelled by hand as `r * q == p - 1`; accepted spellings: that one, or
    # `rem == 0` where `r, rem = divmod(p - 1, q)` (then (p-1) = r*q + rem, so rem == 0 iff r*q == p-1)
    cof = [a for a in asserts if a == "r * self.q == self.p - 1"]
    for k, v in stm.items():
        if (k != "r" and isinstance(v, ast.BinOp) and isinstance(v.op, ast.Mod) and ast.unparse(v) == "(self.p - 1) % self.q"
                and ast.unparse(stm["r"]) == "(self.p - 1) // self.q"):
            cof += [a for a in asserts if a in ("%s == 0" % k, "not %s" % k, "0 == %s" % k)]
    if len(cof) != 1:
        die("groups.py", arb, "arbitrary_element: cofactor assertion `r * self.q == self.p - 1` not found")
    out.append("/-- `arbitrary_element`: cofactor `r` -/\ndef arb_r (p q : Int) : Int := %s\n" % r_txt)
    out.append("/-- `arbitrary_element`: `h` from the big-endian number `n_` of the expanded seed -/\ndef arb_h (p : Int) (n_ : Int) : Int := %s\n" % h_txt)
    out.append("/-- `arbitrary_element`: value of the element -/\ndef arb_elem (p : Int) (h r : Int) : Int := %s\n" % e_txt)
    out.append("/-- python asserts in arbitrary_element: %s -/\ndef arb_asserts : List String := %s\n" % ("; ".join(asserts), json.dumps(asserts)))
    sl = ast.unparse([c for c in ast.walk(arb) if isinstance(c, ast.Call) and ast.unparse(c.func) == "expand_arbitrary_element_seed"][0].args[1])
    if sl != "self.element_size_bytes":
        die("groups.py", arb, "arbitrary_element expands the seed to %s" % sl)
    # password_to_scalar: oversize
    p2s = find_fn(mod, "password_to_scalar")
    calls = [c for c in ast.walk(p2s) if isinstance(c, ast.Call) and ast.unparse(c.func) == "expand_password"]
    cx = Ctx("groups.py:password_to_scalar", {}, set()); cx.locals |= {"scalar_size_bytes", "q", "i"}
    out.append("/-- `password_to_scalar`: number of HKDF bytes requested -/\ndef p2s_len (scalar_size_bytes : Int) : Int := %s\n" % tx(calls[0].args[1], cx))
    ret = p2s.body[-1]
    if not isinstance(ret, ast.Return):
        die("groups.py", p2s, "password_to_scalar does not end in a return")
    # `i` is the big-endian number of the HKDF output: either bound by `i = bytes_to_number(oversized)` or
    # the call is written inside the returned expression
    over = [st for st in p2s.body if isinstance(st, ast.Assign) and ast.unparse(st.targets[0]) == "oversized"]
    if len(over) != 1 or over[0].value is not calls[0] or len(calls) != 1:
        die("groups.py", p2s, "password_to_scalar: `oversized = expand_password(pw, ...)` not found")
    ibind = [st for st in p2s.body if isinstance(st, ast.Assign) and ast.unparse(st.targets[0]) == "i"]

    class B2N(ast.NodeTransformer):
        n = 0

        def visit_Call(self, node):
            if ast.unparse(node) == "bytes_to_number(oversized)":
                B2N.n += 1
                return ast.copy_location(ast.Name(id="i", ctx=ast.Load()), node)
            return self.generic_visit(node)
    retv = B2N().visit(ret.value)
    if not ((len(ibind) == 1 and ast.unparse(ibind[0].value) == "bytes_to_number(oversized)" and B2N.n == 0)
            or (len(ibind) == 0 and B2N.n == 1)):
        die("groups.py", p2s, "password_to_scalar: the reduced number is not bytes_to_number(oversized)")
    for st in p2s.body:
        ok = (isinstance(st, ast.Assert) or (isinstance(st, ast.Expr) and isinstance(st.value, ast.Constant))
              or st is ret or st in over or st in ibind)
        if not ok:
            die("groups.py", st, "unexpected statement in password_to_scalar")
    out.append("/-- `password_to_scalar`: reduction of the big-endian number `i` -/\ndef p2s_reduce (q i : Int) : Int := %s\n" % tx(retv, cx))
    # HKDF parameters
    for fname, lean in (("expand_password", "info_pw"), ("expand_arbitrary_element_seed", "info_arb")):
        f = find_fn(mod, fname)
        call = [c for c in ast.walk(f) if isinstance(c, ast.Call) and ast.unparse(c.func) == "hkdf.HKDF"][0]
        kw = {k.arg: k.value for k in call.keywords}
        if ast.unparse(kw["algorithm"]) != "hashes.SHA256()" or ast.unparse(kw["length"]) != "num_bytes":
            die("groups.py", f, "HKDF algorithm/length changed")
        if not (isinstance(kw["salt"], ast.Constant) and isinstance(kw["salt"].value, bytes) and isinstance(kw["info"].value, bytes)):
            die("groups.py", f, "HKDF salt/info not literal bytes")
        out.append("def %s : List Nat := %s\ndef %s_salt : List Nat := %s\n" % (lean, list(kw["info"].value), lean, list(kw["salt"].value)))
        d = [c for c in ast.walk(f) if isinstance(c, ast.Call) and isinstance(c.func, ast.Attribute) and c.func.attr == "derive"]
        if len(d) != 1 or ast.unparse(d[0].args[0]) != "data":
            die("groups.py", f, "HKDF derive() argument changed")
    # shipped groups
    for node in mod.body:
        if isinstance(node, ast.Assign) and isinstance(node.value, ast.Call) and ast.unparse(node.value.func) == "IntegerGroup":
            name = node.targets[0].id
            kw = {k.arg: k.value.value for k in node.value.keywords}
            out.append("def %s_p : Int := %d\ndef %s_q : Int := %d\ndef %s_g : Int := %d\n" % (name, kw["p"], name, kw["q"], name, kw["g"]))
    out.append("end IntGroup\nend Spake2Model.Gen\n")
    return "\n".join(out), h


def gen_util():
    src, mod, h = read("util.py")
    env = {"fns": {}, "globals": set()}
    out = [HEADER % ("src/spake2/util.py", h), "namespace Util\n"]
    for name, sig in (("size_bits", (["int"], "int")), ("size_bytes", (["int"], "int"))):
        txt, info = translate_function(find_fn(mod, name), sig, env, "util.py")
        out.append(txt); env["fns"][name] = info
    # generate_mask returns a pair
    gm = find_fn(mod, "generate_mask")
    cx = Ctx("util.py:generate_mask", env["fns"], set()); cx.locals.add("maxval")
    lines = body_to_lean(gm.body, cx, 2, [])
    out.append("/-- translated from `generate_mask` (util.py) -/\ndef generate_mask (maxval : Int) : Int × Int :=\n%s\n" % "\n".join(lines))
    # unbiased_randrange: maxval, acceptance test, result
    ur = find_fn(mod, "unbiased_randrange")
    stm = [s for s in ur.body if not isinstance(s, ast.Expr)]
    DRAW = ["enough_bytes = random_list_of_ints(num_bytes, entropy_f)",
            "assert len(enough_bytes) == num_bytes",
            "candidate_bytes = mask_list_of_ints(top_byte_mask_int, enough_bytes)"]

    def is_draw_helper(call):
        """`call` is `_helper(top_byte_mask_int, num_bytes, entropy_f)` and `_helper` is a module-level function
        with exactly those parameter names whose body is the three DRAW statements followed by
        `return list_of_ints_to_number(candidate_bytes)`: one draw of the hand-modelled loop body"""
        if not (isinstance(call, ast.Call) and isinstance(call.func, ast.Name) and not call.keywords):
            return False
        if [ast.unparse(a) for a in call.args] != ["top_byte_mask_int", "num_bytes", "entropy_f"]:
            return False
        try:
            hf = find_fn(mod, call.func.id)
        except Untranslatable:
            return False
        if [a.arg for a in hf.args.args] != ["top_byte_mask_int", "num_bytes", "entropy_f"] or hf.args.defaults \
                or hf.args.vararg or hf.args.kwarg or hf.args.kwonlyargs or hf.decorator_list:
            return False
        hb = [ast.unparse(x) for x in hf.body if not (isinstance(x, ast.Expr) and isinstance(x.value, ast.Constant))]
        return hb in (DRAW + ["return list_of_ints_to_number(candidate_bytes)"],
                      DRAW + ["candidate_int = list_of_ints_to_number(candidate_bytes)", "return candidate_int"])
    try:
        a0, a1 = stm[0], stm[1]
        assert ast.unparse(a0) == "maxval = stop - start"
        assert ast.unparse(a1) in ("(top_byte_mask_int, num_bytes) = generate_mask(maxval)", "top_byte_mask_int, num_bytes = generate_mask(maxval)")
        if len(stm) == 3:
            # shape A:  while True: <draw>; candidate_int = ...; if <accept>: return <result>
            loop = stm[2]
            assert isinstance(loop, ast.While) and ast.unparse(loop.test) == "True" and not loop.orelse
            lb = loop.body
            assert [ast.unparse(x) for x in lb[:3]] == DRAW
            assert ast.unparse(lb[3]) == "candidate_int = list_of_ints_to_number(candidate_bytes)"
            test = lb[4]
            assert isinstance(test, ast.If) and len(test.body) == 1 and isinstance(test.body[0], ast.Return) and not test.orelse and len(lb) == 5
            accept_test, result_expr = test.test, test.body[0].value
        else:
            # shape B:  candidate_int = draw(); while <reject>: candidate_int = draw(); return <result>
            # is the same loop with <accept> = not <reject>: a candidate is drawn, returned as <result> when
            # <reject> is false, otherwise the next one is drawn
            first, loop, ret = stm[2:]
            assert isinstance(first, ast.Assign) and ast.unparse(first.targets[0]) == "candidate_int" and len(first.targets) == 1
            assert is_draw_helper(first.value)
            assert isinstance(loop, ast.While) and not loop.orelse and len(loop.body) == 1
            again = loop.body[0]
            assert isinstance(again, ast.Assign) and len(again.targets) == 1 and ast.unparse(again.targets[0]) == "candidate_int"
            assert ast.dump(again.value) == ast.dump(first.value)
            assert isinstance(ret, ast.Return) and ret.value is not None
            accept_test = ast.UnaryOp(op=ast.Not(), operand=loop.test)
            result_expr = ret.value
        used = {x.id for x in ast.walk(accept_test) if isinstance(x, ast.Name)} | {x.id for x in ast.walk(result_expr) if isinstance(x, ast.Name)}
        assert used <= {"start", "maxval", "candidate_int"}
    except (AssertionError, ValueError, IndexError):
        die("util.py", ur, "unbiased_randrange loop has an unexpected shape")
    cx = Ctx("util.py:unbiased_randrange", {}, set()); cx.locals |= {"start", "stop", "maxval", "candidate_int"}
    out.append("/-- `unbiased_randrange`: acceptance test of one candidate -/\ndef randrange_accept (maxval candidate_int : Int) : Bool := %s\n" % tb(accept_test, cx))
    out.append("/-- `unbiased_randrange`: value returned for an accepted candidate -/\ndef randrange_result (start candidate_int : Int) : Int := %s\n" % tx(result_expr, cx))
    out.append("/-- `unbiased_randrange`: maxval -/\ndef randrange_maxval (start stop : Int) : Int := %s\n" % tx(a0.value, cx))
    # helper functions whose shape is checked textually (modelled by hand in Model/Util.lean)
    # Each helper has a list of accepted shapes; every shape is one that the hand-written definitions of
    # Model/Util.lean (`numberToBytes`, `bytesToNumber`, `maskTop`, `beToNat`, `Entropy.take`) describe:
    #  * bytes_to_number: TypeError for non-bytes (outside the model's typed domain), ValueError for b"", else the
    #    big-endian value: `int(hexlify(s), 16)` (which raises ValueError on b"") or an explicit emptiness test
    #    followed by `int.from_bytes(s, 'big')`;
    #  * number_to_bytes: ValueError above maxval, binascii.Error for negatives, else size_bytes(maxval) big-endian
    #    bytes: the "%0Nx" / unhexlify round trip ('-' makes unhexlify fail) or the explicit test + `to_bytes`.
    # Messages of raised exceptions are not observed by the model (only the class): literal arguments of a
    # raised exception are dropped before comparing.
    class DropMsg(ast.NodeTransformer):
        def visit_Raise(self, node):
            if (isinstance(node.exc, ast.Call) and not node.exc.keywords and node.cause is None
                    and all(isinstance(a, ast.Constant) and isinstance(a.value, str) for a in node.exc.args)):
                return ast.copy_location(ast.Raise(exc=node.exc.func, cause=None), node)
            return node

    def shape_of(f):
        body = [x for x in f.body if not (isinstance(x, ast.Expr) and isinstance(x.value, ast.Constant))]
        return "\n".join(ast.unparse(ast.fix_missing_locations(DropMsg().visit(x))) for x in body)
    shapes = {
        "random_list_of_ints": ["return list(iter(entropy_f(count)))"],
        "mask_list_of_ints": ["return [top_byte_mask_int & list_of_ints[0]] + list_of_ints[1:]"],
        "list_of_ints_to_number": ["s = ''.join(['%02x' % b for b in l])\nreturn int(s, 16)"],
        "bytes_to_number": [
            "if not isinstance(s, type(b'')):\n    raise TypeError\nreturn int(binascii.hexlify(s), 16)",
            "if not isinstance(s, type(b'')):\n    raise TypeError\nif not s:\n    raise ValueError\nreturn int.from_bytes(s, 'big')",
        ],
        "number_to_bytes": [
            ("if num > maxval:\n    raise ValueError\nnum_bytes = size_bytes(maxval)\nfmt_str = '%0' + str(2 * num_bytes) + 'x'\n"
             "s_hex = fmt_str % num\ns = binascii.unhexlify(s_hex.encode('ascii'))\nassert len(s) == num_bytes\n"
             "assert isinstance(s, type(b''))\nreturn s"),
            ("if num > maxval:\n    raise ValueError\nnum_bytes = size_bytes(maxval)\nnum = operator.index(num)\n"
             "if num < 0:\n    raise binascii.Error\ns = num.to_bytes(num_bytes, 'big')\nassert len(s) == num_bytes\n"
             "assert isinstance(s, type(b''))\nreturn s"),
        ],
    }
    for name, want in shapes.items():
        f = find_fn(mod, name)
        got = shape_of(f)
        if got not in want:
            die("util.py", f, "%s changed shape: %r" % (name, got))
    # the names the shapes rely on must be the standard modules
    imported = set()
    for node in mod.body:
        if isinstance(node, ast.Import):
            imported |= {(a.asname or a.name) for a in node.names if a.asname in (None, a.name)}
    for need in ("binascii", "operator"):
        if need in " ".join(shape_of(find_fn(mod, n)) for n in shapes) and need not in imported:
            die("util.py", mod.body[0], "module %s is used but not imported under its own name" % need)
    out.append("end Util\nend Spake2Model.Gen\n")
    return "\n".join(out), h


def gen_consts():
    """constants of spake2.py / params.py / parameters/* / ed25519_group.py"""
    out = []
    hs = {}
    src, mod, h = read("spake2.py"); hs["spake2.py"] = h
    sides = {}
    default = None
    for node in mod.body:
        if isinstance(node, ast.Assign) and isinstance(node.targets[0], ast.Name):
            n = node.targets[0].id
            if n in ("SideA", "SideB", "SideSymmetric") and isinstance(node.value, ast.Constant):
                sides[n] = list(node.value.value)
            if n == "DefaultParams":
                default = ast.unparse(node.value)
    if set(sides) != {"SideA", "SideB", "SideSymmetric"} or default is None:
        raise Untranslatable("spake2.py: side constants / DefaultParams not found")
    src, mod, h = read("params.py"); hs["params.py"] = h
    init = find_fn(mod, "__init__", "_Params")

    def bytes_consts(m):
        """module-level `NAME = b'...'` constants (a name bound twice at module level is rejected)"""
        out_, seen = {}, set()
        for node in ast.walk(m):
            # any other binding of a module-level name (global statements, loops, ...) is outside the subset
            if isinstance(node, ast.Global):
                raise Untranslatable("params: `global` statement")
        for node in m.body:
            names_ = []
            if isinstance(node, ast.Assign):
                for t in node.targets:
                    names_ += [x.id for x in ast.walk(t) if isinstance(x, ast.Name)]
            elif isinstance(node, (ast.AugAssign, ast.AnnAssign)) and isinstance(node.target, ast.Name):
                names_ = [node.target.id]
            elif isinstance(node, (ast.FunctionDef, ast.ClassDef)):
                names_ = [node.name]
            elif isinstance(node, (ast.For, ast.While, ast.If, ast.With, ast.Try)):
                names_ = [x.id for x in ast.walk(node) if isinstance(x, ast.Name) and isinstance(x.ctx, ast.Store)]
            for n in names_:
                if n in seen:
                    out_.pop(n, None)
                    out_[n] = None
                seen.add(n)
            if (isinstance(node, ast.Assign) and len(node.targets) == 1 and isinstance(node.targets[0], ast.Name)
                    and isinstance(node.value, ast.Constant) and isinstance(node.value.value, bytes)
                    and out_.get(node.targets[0].id, 0) == 0):
                out_[node.targets[0].id] = node.value.value
        return {k: v for k, v in out_.items() if v is not None}
    params_consts = bytes_consts(mod)

    def seed_value(node, consts, what):
        if isinstance(node, ast.Constant) and isinstance(node.value, bytes):
            return node.value
        if isinstance(node, ast.Name) and node.id in consts:
            return consts[node.id]
        raise Untranslatable("%s: seed `%s` is not a bytes literal or a module-level bytes constant" % (what, ast.unparse(node)))
    names = [a.arg for a in init.args.args][-len(init.args.defaults):] if init.args.defaults else []
    seeds = {n: seed_value(d, params_consts, "params.py") for n, d in zip(names, init.args.defaults)}
    if [a.arg for a in init.args.args] != ["self", "group", "M", "N", "S"] or set(seeds) != {"M", "N", "S"}:
        raise Untranslatable("params.py: _Params.__init__ signature changed")
    body = [ast.unparse(s) for s in init.body]
    for want in ("self.M = group.arbitrary_element(seed=M)", "self.N = group.arbitrary_element(seed=N)", "self.S = group.arbitrary_element(seed=S)"):
        if want not in body:
            raise Untranslatable("params.py: `%s` not found" % want)
    psets = {}
    for f, var in (("ed25519.py", "ParamsEd25519"), ("i1024.py", "Params1024"), ("i2048.py", "Params2048"), ("i3072.py", "Params3072")):
        src, mod, h = read(os.path.join("parameters", f)); hs["parameters/" + f] = h
        # names imported from ..params keep the values of params.py's module-level bytes constants
        pconsts = {}
        for node in mod.body:
            if isinstance(node, ast.ImportFrom) and node.level == 2 and node.module == "params":
                for a in node.names:
                    if a.name in params_consts:
                        pconsts[a.asname or a.name] = params_consts[a.name]
        local = bytes_consts(mod)
        for node in mod.body:
            if isinstance(node, ast.Assign):
                for t in node.targets:
                    for x in ast.walk(t):
                        if isinstance(x, ast.Name):
                            pconsts.pop(x.id, None)
        pconsts.update(local)
        for node in mod.body:
            if isinstance(node, ast.Assign) and isinstance(node.targets[0], ast.Name) and node.targets[0].id == var:
                v = node.value
                if isinstance(v, ast.Call) and v.keywords and len(v.args) == 1:
                    # explicit seeds: accepted when they are the default seeds (the model has one seed triple)
                    kws = {k.arg: k.value for k in v.keywords}
                    if None in kws or not set(kws) <= {"M", "N", "S"} or len(kws) != len(v.keywords):
                        raise Untranslatable("parameters/%s: unexpected keyword arguments" % f)
                    for k, kv in kws.items():
                        if seed_value(kv, pconsts, "parameters/" + f) != seeds[k]:
                            raise Untranslatable("parameters/%s: seed %s differs from the default seed" % (f, k))
                    v = ast.Call(func=v.func, args=v.args, keywords=[])
                psets[var] = ast.unparse(v)
    want = {"ParamsEd25519": "_Params(Ed25519Group)", "Params1024": "_Params(I1024)", "Params2048": "_Params(I2048)", "Params3072": "_Params(I3072)"}
    if psets != want:
        raise Untranslatable("parameters/*: parameter sets changed: %r" % psets)
    src, mod, h = read("ed25519_group.py"); hs["ed25519_group.py"] = h
    sizes = {}
    # attributes given to the instance by its constructor: `Ed25519Group = _C()` with
    # `_C.__init__(self)` consisting of plain `self.X = <expr>` statements
    for node in mod.body:
        if (isinstance(node, ast.Assign) and len(node.targets) == 1 and isinstance(node.targets[0], ast.Name)
                and node.targets[0].id == "Ed25519Group" and isinstance(node.value, ast.Call)
                and isinstance(node.value.func, ast.Name) and not node.value.args and not node.value.keywords):
            try:
                ctor = find_fn(mod, "__init__", node.value.func.id)
            except Untranslatable:
                continue
            if [a.arg for a in ctor.args.args] != ["self"] or ctor.args.vararg or ctor.args.kwarg or ctor.args.kwonlyargs:
                raise Untranslatable("ed25519_group.py: constructor with parameters")
            for st in ctor.body:
                if isinstance(st, ast.Expr) and isinstance(st.value, ast.Constant):
                    continue
                if not (isinstance(st, ast.Assign) and len(st.targets) == 1 and isinstance(st.targets[0], ast.Attribute)
                        and isinstance(st.targets[0].value, ast.Name) and st.targets[0].value.id == "self"):
                    raise Untranslatable("ed25519_group.py: line %d: unsupported statement in the constructor" % st.lineno)
                if any(isinstance(x, ast.Name) and x.id == "self" for x in ast.walk(st.value)):
                    raise Untranslatable("ed25519_group.py: line %d: constructor attribute depends on self" % st.lineno)
                key = "Ed25519Group." + st.targets[0].attr
                if key in sizes:
                    raise Untranslatable("ed25519_group.py: attribute %s set twice" % key)
                sizes[key] = ast.unparse(st.value)
    for node in mod.body:
        if isinstance(node, ast.Assign) and isinstance(node.targets[0], ast.Attribute):
            key = ast.unparse(node.targets[0])
            if key in sizes:
                raise Untranslatable("ed25519_group.py: attribute %s set twice" % key)
            sizes[key] = ast.unparse(node.value)
    if sizes.get("Ed25519Group.scalar_size_bytes") is None or sizes.get("Ed25519Group.element_size_bytes") is None:
        raise Untranslatable("ed25519_group.py: sizes not found")
    if sizes.get("Ed25519Group.Base") != "ed25519_basic.Base" or sizes.get("Ed25519Group.Zero") != "ed25519_basic.Zero":
        raise Untranslatable("ed25519_group.py: Base/Zero changed")
    hh = hashlib.sha256(json.dumps(hs, sort_keys=True).encode()).hexdigest()
    out.append(HEADER % ("src/spake2/{spake2,params,ed25519_group}.py, parameters/*.py", hh))
    out.append("namespace Consts\n")
    out.append("def sideA : List Nat := %s\ndef sideB : List Nat := %s\ndef sideS : List Nat := %s\n" % (sides["SideA"], sides["SideB"], sides["SideSymmetric"]))
    out.append("def seedM : List Nat := %s\ndef seedN : List Nat := %s\ndef seedS : List Nat := %s\n" % (list(seeds["M"]), list(seeds["N"]), list(seeds["S"])))
    out.append("/-- `DefaultParams = %s` -/\ndef defaultParams : String := %s\n" % (default, json.dumps(default)))
    out.append("def ed_scalar_size_bytes : Int := %s\ndef ed_element_size_bytes : Int := %s\n" % (sizes["Ed25519Group.scalar_size_bytes"], sizes["Ed25519Group.element_size_bytes"]))
    out.append("end Consts\nend Spake2Model.Gen\n")
    return "\n".join(out), hs


# ---------------------------------------------------------------------------------------
# protocol glue of spake2.py: transcripts, parameter fingerprint, state dictionary, side checks
# ---------------------------------------------------------------------------------------

PROTO_HEADER = """-- GENERATED by tools/py2lean.py from src/spake2/spake2.py -- do not edit.
-- Shape of the protocol glue: the two transcript functions, the pieces hashed by `hash_params`, the
-- (key, value) layout of `_serialize_to_dict` and the side checks of `_extract_message`.
-- `Spake2Verif/Proofs/ProtoShapeTie.lean` proves that the hand-written model is exactly this.
import Spake2Model.Model.Bytes
import Spake2Model.Model.Sha256
import Spake2Model.Model.Util
import Spake2Model.Gen.Consts
set_option linter.unusedVariables false
namespace Spake2Model.Gen.Proto
"""

LEAN_RESERVED = {
    "Sha", "Consts", "List", "sorted2", "raise", "R", "Bytes", "Except", "Err", "PyExc", "Spake2Model", "Gen", "Proto",
    "selfSide", "arb_empty", "scalar_enc", "M", "N", "S", "self",
    "at", "fun", "from", "end", "let", "in", "if", "then", "else", "do", "match", "with", "def", "theorem", "have", "show", "by",
    "open", "namespace", "section", "variable", "where", "instance", "structure", "class", "deriving", "import", "return",
    "for", "Type", "Prop", "Sort", "true", "false", "mut", "unless", "try", "catch", "finally", "nomatch", "nofun", "calc",
    "suffices", "obtain", "using", "extends", "abbrev", "inductive", "example", "axiom", "universe", "private", "protected",
    "partial", "unsafe", "noncomputable", "mutual", "macro", "syntax", "notation", "infix", "infixl", "infixr", "prefix",
    "postfix", "attribute", "export", "set_option", "local", "scoped", "this", "forall", "exists", "opaque", "elab", "rec",
}
SPAKE_ERRS = ["OnlyCallStartOnce", "OnlyCallFinishOnce", "OffSides", "SerializedTooEarly", "WrongSideSerialized",
              "WrongGroupError", "ReflectionThwarted"]
PY_ERRS = ["ValueError", "AssertionError", "TypeError", "AttributeError", "KeyError", "IndexError", "ZeroDivisionError"]
SIDE_CONSTS = {"SideA": "Consts.sideA", "SideB": "Consts.sideB", "SideSymmetric": "Consts.sideS"}


def is_doc(s):
    return isinstance(s, ast.Expr) and isinstance(s.value, ast.Constant) and isinstance(s.value.value, str)


class ProtoMod:
    """facts about the module spake2.py that the statement translators rely on"""

    def __init__(self, mod, fname):
        self.mod, self.fname = mod, fname
        self.bindings = module_binding_counts(mod)
        if any(isinstance(n, ast.ImportFrom) and any(a.name == "*" for a in n.names) for n in ast.walk(mod)):
            raise Untranslatable("%s: star import" % fname)
        self.classes, self.fns, self.std = {}, {}, {}
        for n in mod.body:
            if isinstance(n, ast.ClassDef):
                self.classes[n.name] = n
            elif isinstance(n, ast.FunctionDef):
                self.fns[n.name] = n
            elif isinstance(n, ast.ImportFrom) and n.level == 0:
                for a in n.names:
                    if a.asname in (None, a.name):
                        self.std[a.name] = n.module

    def once(self, name):
        return self.bindings.get(name, 0) == 1

    def is_std(self, name, module):
        """`name` is bound exactly once at module level, by `from <module> import <name>`"""
        return self.once(name) and self.std.get(name) == module

    def side_const(self, name):
        if name in SIDE_CONSTS and self.once(name):
            for n in self.mod.body:
                if (isinstance(n, ast.Assign) and len(n.targets) == 1 and isinstance(n.targets[0], ast.Name)
                        and n.targets[0].id == name and isinstance(n.value, ast.Constant) and isinstance(n.value.value, bytes)):
                    return SIDE_CONSTS[name]
        return None

    def mro(self, cname):
        out = []
        while True:
            c = self.classes.get(cname)
            if c is None or not self.once(cname):
                raise Untranslatable("%s: class %s not found (or bound more than once)" % (self.fname, cname))
            if c.keywords or c.decorator_list:
                die(self.fname, c, "class %s has a metaclass / decorator" % cname)
            out.append(c)
            if not c.bases:
                return out
            if len(c.bases) != 1 or not isinstance(c.bases[0], ast.Name):
                die(self.fname, c, "class %s: unsupported bases" % cname)
            cname = c.bases[0].id
            if len(out) > 8:
                die(self.fname, c, "class hierarchy too deep")

    def member(self, cname, attr):
        """the class-body statement that binds `attr` for instances of `cname` (method resolution order)"""
        for c in self.mro(cname):
            hits = []
            for n in c.body:
                if isinstance(n, (ast.FunctionDef, ast.AsyncFunctionDef, ast.ClassDef)) and n.name == attr:
                    hits.append(n)
                elif isinstance(n, (ast.Assign, ast.AugAssign, ast.AnnAssign)):
                    ts = n.targets if isinstance(n, ast.Assign) else [n.target]
                    if any(isinstance(x, ast.Name) and x.id == attr for t in ts for x in ast.walk(t)):
                        hits.append(n)
                elif not isinstance(n, (ast.FunctionDef, ast.Expr, ast.Pass)):
                    if any(isinstance(x, ast.Name) and x.id == attr and isinstance(x.ctx, ast.Store) for x in ast.walk(n)):
                        hits.append(n)
            if len(hits) > 1:
                die(self.fname, hits[1], "%s.%s is bound more than once" % (c.name, attr))
            if hits:
                return c, hits[0]
        raise Untranslatable("%s: %s.%s not found" % (self.fname, cname, attr))

    def method(self, cnames, name, nparams):
        """the one plain method `name(self, <nparams> positional parameters)` that all classes `cnames` use"""
        found = [self.member(c, name) for c in cnames]
        c0, fn = found[0]
        if any(f is not fn for _, f in found):
            die(self.fname, fn, "%s resolves to different definitions for %s" % (name, ", ".join(cnames)))
        a = getattr(fn, "args", None)
        if (not isinstance(fn, ast.FunctionDef) or fn.decorator_list or a.vararg or a.kwarg or a.kwonlyargs or a.defaults
                or getattr(a, "posonlyargs", []) or len(a.args) != nparams + 1 or a.args[0].arg != "self"):
            die(self.fname, fn, "%s.%s is not a plain method with %d parameter(s)" % (c0.name, name, nparams))
        return c0, fn

    def class_side(self, cname):
        c, n = self.member(cname, "side")
        if not (isinstance(n, ast.Assign) and len(n.targets) == 1 and isinstance(n.targets[0], ast.Name)
                and isinstance(n.value, ast.Name) and self.side_const(n.value.id)):
            die(self.fname, n, "%s.side is not one of the side constants" % cname)
        return self.side_const(n.value.id)

    def inline(self, call, st):
        """`helper(args)` for a module-level helper `def helper(p, ...): return <expr>`: <expr> with the arguments
        substituted (None when `call` is not such a call)"""
        if not (isinstance(call, ast.Call) and isinstance(call.func, ast.Name)):
            return None
        f = call.func.id
        fn = self.fns.get(f)
        if fn is None or f in st.locals:
            return None
        body = [x for x in fn.body if not is_doc(x)]
        a = fn.args
        params = [x.arg for x in a.args]
        if (not self.once(f) or fn.decorator_list or a.vararg or a.kwarg or a.kwonlyargs or a.defaults
                or getattr(a, "posonlyargs", []) or call.keywords or len(call.args) != len(params)
                or any(isinstance(x, ast.Starred) for x in call.args)
                or len(body) != 1 or not isinstance(body[0], ast.Return) or body[0].value is None):
            die(st.where, call, "call of %s: not a one-expression helper called positionally" % f)
        expr = body[0].value
        for x in ast.walk(expr):
            if isinstance(x, (ast.Lambda, ast.ListComp, ast.SetComp, ast.DictComp, ast.GeneratorExp, ast.NamedExpr,
                              ast.Await, ast.Yield, ast.YieldFrom)):
                die(st.where, call, "helper %s: unsupported expression" % f)
        used = [x.id for x in ast.walk(expr) if isinstance(x, ast.Name)]
        if any(used.count(p) < 1 for p in params) or len(set(params)) != len(params):
            die(st.where, call, "helper %s: a parameter is not used" % f)
        if any(u in st.locals or u == "self" for u in used if u not in params):
            die(st.where, call, "helper %s: a global it reads is shadowed by a local of the caller" % f)
        st.depth += 1
        if st.depth > 6:
            die(st.where, call, "helper calls nested too deeply")
        amap = dict(zip(params, call.args))

        class Sub(ast.NodeTransformer):
            def visit_Name(self, node):
                return amap[node.id] if node.id in amap else node
        import copy
        return ast.copy_location(Sub().visit(copy.deepcopy(expr)), call)


class PSt:
    def __init__(self, pm, where, mode):
        self.pm, self.where, self.mode = pm, where, mode   # mode: 'pure' | 'R' | 'hash'
        self.locals = {}      # python local -> 'bytes' | 'list' | 'group'
        self.atom = None      # symbolic atoms (self.side, g.arbitrary_element(b"").to_bytes(), ...)
        self.effects = []
        self.depth = 0
        self.budget = 400

    def fork(self):
        c = PSt(self.pm, self.where, self.mode)
        c.locals, c.atom, c.effects, c.depth = dict(self.locals), self.atom, self.effects, self.depth
        return c


def pname(n, st, node=None):
    if not re.match(r"^[A-Za-z_][A-Za-z0-9_]*$", n) or n in LEAN_RESERVED or n.startswith("__"):
        die(st.where, node, "local name %s cannot be used in the generated Lean" % n)
    return n


def bytes_lit(b):
    return "([%s] : Bytes)" % ", ".join(str(x) for x in b)


def small_index(e):
    return isinstance(e, ast.Constant) and type(e.value) is int and 0 <= e.value < 1000


def bexpr(e, st):
    """a bytes-valued expression"""
    st.budget -= 1
    if st.budget < 0:
        die(st.where, e, "expression too large")
    if st.atom is not None:
        a = st.atom(e, st)
        if a is not None:
            return a
    if isinstance(e, ast.Name):
        if st.locals.get(e.id) == "bytes":
            return pname(e.id, st, e)
        if e.id not in st.locals and st.pm.side_const(e.id):
            return st.pm.side_const(e.id)
        die(st.where, e, "name %s is not a bytes local or a side constant" % e.id)
    if isinstance(e, ast.Constant) and isinstance(e.value, bytes):
        return bytes_lit(e.value)
    if isinstance(e, ast.BinOp) and isinstance(e.op, ast.Add):
        l = bexpr(e.left, st)
        return "(%s ++ %s)" % (l, bexpr(e.right, st))
    if isinstance(e, ast.Subscript) and isinstance(e.slice, ast.Slice):
        sl = e.slice
        if sl.step is not None or not all(x is None or small_index(x) for x in (sl.lower, sl.upper)):
            die(st.where, e, "slice with non-literal or negative bounds / step")
        v = bexpr(e.value, st)
        lo = sl.lower.value if sl.lower is not None else 0
        if sl.upper is not None:
            v = "(List.take %d %s)" % (sl.upper.value, v)
        if lo:
            v = "(List.drop %d %s)" % (lo, v)
        return v
    if isinstance(e, ast.Call):
        f = e.func
        if (isinstance(f, ast.Attribute) and f.attr == "digest" and not e.args and not e.keywords
                and isinstance(f.value, ast.Call) and isinstance(f.value.func, ast.Name) and f.value.func.id == "sha256"
                and "sha256" not in st.locals and st.pm.is_std("sha256", "hashlib")
                and len(f.value.args) == 1 and not f.value.keywords and not isinstance(f.value.args[0], ast.Starred)):
            return "(Sha.sha256 %s)" % bexpr(f.value.args[0], st)
        if (isinstance(f, ast.Attribute) and f.attr == "join" and isinstance(f.value, ast.Constant) and f.value.value == b""
                and len(e.args) == 1 and not e.keywords):
            return "(List.flatten %s)" % lexpr(e.args[0], st)
        inl = st.pm.inline(e, st)
        if inl is not None:
            r = bexpr(inl, st)
            st.depth -= 1
            return r
    die(st.where, e, "bytes expression `%s`" % ast.unparse(e)[:60])


def lexpr(e, st):
    """a list (or tuple) of bytes"""
    if isinstance(e, (ast.List, ast.Tuple)):
        if any(isinstance(x, ast.Starred) for x in e.elts):
            die(st.where, e, "starred element")
        return "[" + ", ".join(bexpr(x, st) for x in e.elts) + "]"
    if isinstance(e, ast.Name) and st.locals.get(e.id) == "list":
        return pname(e.id, st, e)
    die(st.where, e, "list-of-bytes expression `%s`" % ast.unparse(e)[:60])


def cexpr(e, st):
    """a condition (a Lean Prop, decidable): comparisons of bytes, membership in a literal tuple, and/or/not"""
    if isinstance(e, ast.Compare) and len(e.ops) == 1:
        op, r = e.ops[0], e.comparators[0]
        if isinstance(op, (ast.Eq, ast.NotEq)):
            l = bexpr(e.left, st)
            return "(%s %s %s)" % (l, "=" if isinstance(op, ast.Eq) else "≠", bexpr(r, st))
        if isinstance(op, (ast.In, ast.NotIn)) and isinstance(r, (ast.Tuple, ast.List)) and r.elts \
                and not any(isinstance(x, ast.Starred) for x in r.elts):
            l = bexpr(e.left, st)
            alts = " ∨ ".join("%s = %s" % (l, bexpr(x, st)) for x in r.elts)
            return "(%s)" % alts if isinstance(op, ast.In) else "(¬ (%s))" % alts
    if isinstance(e, ast.BoolOp):
        j = " ∧ " if isinstance(e.op, ast.And) else " ∨ "
        return "(" + j.join(cexpr(v, st) for v in e.values) + ")"
    if isinstance(e, ast.UnaryOp) and isinstance(e.op, ast.Not):
        return "(¬ %s)" % cexpr(e.operand, st)
    die(st.where, e, "condition `%s`" % ast.unparse(e)[:60])


def terminates(ss):
    if not ss:
        return False
    s = ss[-1]
    if isinstance(s, (ast.Return, ast.Raise)):
        return True
    return isinstance(s, ast.If) and bool(s.orelse) and terminates(s.body) and terminates(s.orelse)


def raise_target(s, st):
    """`raise Cls` / `raise Cls("literal", ...)` -> the model's error"""
    exc = s.exc
    if isinstance(exc, ast.Call) and not exc.keywords and all(
            isinstance(a, ast.Constant) and isinstance(a.value, str) for a in exc.args):
        exc = exc.func
    if s.cause is not None or not isinstance(exc, ast.Name) or exc.id in st.locals:
        die(st.where, s, "raise of something other than `Cls` / `Cls(\"literal\")`")
    if exc.id in SPAKE_ERRS and st.pm.once(exc.id) and exc.id in st.pm.classes:
        return ".error .%s" % exc.id
    if exc.id in PY_ERRS and st.pm.bindings.get(exc.id, 0) == 0:
        return "raise .%s" % exc.id
    die(st.where, s, "raise of unknown exception class %s" % exc.id)


def pblock(ss, st, ind, ret):
    """statements -> Lean lines (continuation style: what follows an `if` is copied into the arms that fall through).
    `ret(value_node, st)` renders the returned value."""
    pad = " " * ind
    lines = []
    for idx, s in enumerate(ss):
        rest = ss[idx + 1:]
        st.budget -= 1
        if st.budget < 0:
            die(st.where, s, "function too large")
        if is_doc(s) or isinstance(s, ast.Pass):
            continue
        if isinstance(s, ast.Assign):
            if len(s.targets) != 1:
                die(st.where, s, "multiple assignment targets")
            t, v = s.targets[0], s.value
            if isinstance(t, ast.Name):
                if st.mode == "hash" and ast.unparse(v) == "self.params.group":
                    st.locals[t.id] = "group"
                    pname(t.id, st, s)
                    continue
                if isinstance(v, (ast.List, ast.Tuple)):
                    rhs, ty = lexpr(v, st), "list"
                else:
                    rhs, ty = bexpr(v, st), "bytes"
                lines.append("%slet %s := %s" % (pad, pname(t.id, st, s), rhs))
                st.locals[t.id] = ty
                continue
            if (isinstance(t, ast.Tuple) and len(t.elts) == 2 and all(isinstance(x, ast.Name) for x in t.elts)
                    and t.elts[0].id != t.elts[1].id
                    and isinstance(v, ast.Call) and isinstance(v.func, ast.Name) and v.func.id == "sorted"
                    and "sorted" not in st.locals and st.pm.bindings.get("sorted", 0) == 0
                    and len(v.args) == 1 and not v.keywords and isinstance(v.args[0], (ast.List, ast.Tuple))
                    and len(v.args[0].elts) == 2 and not any(isinstance(x, ast.Starred) for x in v.args[0].elts)):
                a = bexpr(v.args[0].elts[0], st)
                b = bexpr(v.args[0].elts[1], st)
                lines.append("%slet (%s, %s) := sorted2 %s %s" % (pad, pname(t.elts[0].id, st, s), pname(t.elts[1].id, st, s), a, b))
                st.locals[t.elts[0].id] = st.locals[t.elts[1].id] = "bytes"
                continue
            die(st.where, s, "assignment `%s`" % ast.unparse(s)[:60])
        if (isinstance(s, ast.Expr) and isinstance(s.value, ast.Call) and isinstance(s.value.func, ast.Attribute)
                and s.value.func.attr == "append" and isinstance(s.value.func.value, ast.Name)
                and st.locals.get(s.value.func.value.id) == "list" and len(s.value.args) == 1 and not s.value.keywords
                and not isinstance(s.value.args[0], ast.Starred)):
            n = pname(s.value.func.value.id, st, s)
            lines.append("%slet %s := (%s ++ [%s])" % (pad, n, n, bexpr(s.value.args[0], st)))
            continue
        if isinstance(s, ast.Return):
            if s.value is None:
                die(st.where, s, "return without a value")
            lines.append(pad + ret(s.value, st))
            return lines
        if st.mode == "R" and isinstance(s, ast.Raise):
            lines.append(pad + raise_target(s, st))
            return lines
        if st.mode == "R" and isinstance(s, ast.Assert):
            if s.msg is not None and not isinstance(s.msg, ast.Constant):
                die(st.where, s, "assert with a computed message")
            lines.append("%sif %s then" % (pad, cexpr(s.test, st)))
            lines += pblock(rest, st.fork(), ind + 2, ret)
            lines.append("%selse raise .AssertionError" % pad)
            return lines
        if st.mode == "R" and isinstance(s, ast.If):
            c = cexpr(s.test, st)
            arm1 = s.body + ([] if terminates(s.body) else rest)
            arm2 = s.orelse + ([] if terminates(s.orelse) else rest)
            lines.append("%sif %s then" % (pad, c))
            lines += pblock(arm1, st.fork(), ind + 2, ret)
            lines.append("%selse" % pad)
            lines += pblock(arm2, st.fork(), ind + 2, ret)
            return lines
        die(st.where, s, "statement `%s`" % ast.unparse(s).split("\n")[0][:60])
    die(st.where, ss[-1] if ss else None, "control reaches the end of the function without return / raise")


def plain_function(pm, name, nparams):
    fn = pm.fns.get(name)
    if fn is None or not pm.once(name):
        raise Untranslatable("%s: function %s not found (or bound more than once)" % (pm.fname, name))
    a = fn.args
    if (fn.decorator_list or a.vararg or a.kwarg or a.kwonlyargs or a.defaults or getattr(a, "posonlyargs", [])
            or len(a.args) != nparams or len({x.arg for x in a.args}) != nparams):
        die(pm.fname, fn, "%s is not a plain function of %d parameters" % (name, nparams))
    return fn


def is_self_attr(e, attr):
    return isinstance(e, ast.Attribute) and e.attr == attr and isinstance(e.value, ast.Name) and e.value.id == "self"


def is_group(e, st):
    """`self.params.group` or a local bound to it"""
    if isinstance(e, ast.Name):
        return st.locals.get(e.id) == "group"
    return isinstance(e, ast.Attribute) and e.attr == "group" and is_self_attr(e.value, "params")


def is_empty_bytes(e):
    return isinstance(e, ast.Constant) and e.value == b""


def plain_call(e, nargs):
    return isinstance(e, ast.Call) and not e.keywords and len(e.args) == nargs and not any(isinstance(x, ast.Starred) for x in e.args)


def scalar_to_bytes_of(e, st):
    """`G.scalar_to_bytes(X)` -> X"""
    if plain_call(e, 1) and isinstance(e.func, ast.Attribute) and e.func.attr == "scalar_to_bytes" and is_group(e.func.value, st):
        return e.args[0]
    return None


def hash_atom(e, st):
    if "self" in st.locals:
        return None
    if plain_call(e, 0) and isinstance(e.func, ast.Attribute) and e.func.attr == "to_bytes":
        v = e.func.value
        if (plain_call(v, 1) and isinstance(v.func, ast.Attribute) and v.func.attr == "arbitrary_element"
                and is_group(v.func.value, st) and is_empty_bytes(v.args[0])):
            if "arb_empty" not in st.effects:
                st.effects.append("arb_empty")
            return "arb_empty"
        if isinstance(v, ast.Attribute) and v.attr in ("M", "N", "S") and is_self_attr(v.value, "params"):
            return v.attr
    x = scalar_to_bytes_of(e, st)
    if (x is not None and plain_call(x, 1) and isinstance(x.func, ast.Attribute) and x.func.attr == "password_to_scalar"
            and is_group(x.func.value, st) and is_empty_bytes(x.args[0])):
        if "scalar_enc" not in st.effects:
            st.effects.append("scalar_enc")
        return "scalar_enc"
    return None


def gen_proto():
    src, mod, h = read("spake2.py")
    pm = ProtoMod(mod, "spake2.py")
    out = [PROTO_HEADER]

    # (a) the two transcript functions
    for pyname, lean, n in (("finalize_SPAKE2", "finalize_asym", 6), ("finalize_SPAKE2_symmetric", "finalize_sym", 5)):
        fn = plain_function(pm, pyname, n)
        st = PSt(pm, "spake2.py:" + pyname, "pure")
        params = [a.arg for a in fn.args.args]
        for p in params:
            st.locals[p] = "bytes"
        body = pblock(fn.body, st, 2, lambda v, s: bexpr(v, s))
        out.append("/-- translated from `%s` -/\ndef %s (%s : Bytes) : Bytes :=\n%s\n" % (
            pyname, lean, " ".join(pname(p, st, fn) for p in params), "\n".join(body)))

    # the side each class is on
    sides = {k: pm.class_side(c) for k, c in (("A", "SPAKE2_A"), ("B", "SPAKE2_B"), ("S", "SPAKE2_Symmetric"))}
    for k in "ABS":
        out.append("/-- `%s.side` -/\ndef class_side_%s : Bytes := %s\n" % ({"A": "SPAKE2_A", "B": "SPAKE2_B", "S": "SPAKE2_Symmetric"}[k], k, sides[k]))

    # (b) the pieces hashed by hash_params
    def hash_ret(v, st):
        if not (plain_call(v, 0) and isinstance(v.func, ast.Attribute) and v.func.attr == "hexdigest"
                and plain_call(v.func.value, 1) and isinstance(v.func.value.func, ast.Name) and v.func.value.func.id == "sha256"
                and "sha256" not in st.locals and pm.is_std("sha256", "hashlib")):
            die(st.where, v, "hash_params does not end in `return sha256(<bytes>).hexdigest()`")
        arg = v.func.value.args[0]
        if (plain_call(arg, 1) and isinstance(arg.func, ast.Attribute) and arg.func.attr == "join"
                and isinstance(arg.func.value, ast.Constant) and arg.func.value.value == b""):
            return lexpr(arg.args[0], st)
        return "[%s]" % bexpr(arg, st)
    for lean, classes in (("asym", ["SPAKE2_A", "SPAKE2_B"]), ("sym", ["SPAKE2_Symmetric"])):
        c, fn = pm.method(classes, "hash_params", 0)
        st = PSt(pm, "spake2.py:%s.hash_params" % c.name, "hash")
        st.atom = hash_atom
        body = pblock(fn.body, st, 2, hash_ret)
        out.append("/-- the pieces `%s.hash_params` (used by %s) joins and hashes: `sha256(b\"\".join(<this>)).hexdigest()` -/\n"
                   "def hash_pieces_%s (arb_empty scalar_enc M N S : Bytes) : List Bytes :=\n%s\n" % (c.name, ", ".join(classes), lean, "\n".join(body)))
        out.append("/-- the fallible group operations of that method, in evaluation order -/\ndef hash_effects_%s : List String := %s\n" % (
            lean, json.dumps(st.effects)))

    # (c) the state dictionary
    def dval(e, st):
        if plain_call(e, 0) and is_self_attr(e.func, "hash_params"):
            return "hash_params"
        if (plain_call(e, 1) and isinstance(e.func, ast.Attribute) and e.func.attr == "decode"
                and isinstance(e.args[0], ast.Constant) and e.args[0].value == "ascii"):
            v = e.func.value
            if is_self_attr(v, "side"):
                return "side"
            if (plain_call(v, 1) and isinstance(v.func, ast.Name) and v.func.id == "hexlify" and "hexlify" not in st.locals
                    and pm.is_std("hexlify", "binascii")):
                x = v.args[0]
                for attr, nm in (("idA", "idA"), ("idB", "idB"), ("idSymmetric", "idS"), ("pw", "pw")):
                    if is_self_attr(x, attr):
                        return "hex " + nm
                sc = scalar_to_bytes_of(x, st)
                if sc is not None and is_self_attr(sc, "xy_scalar"):
                    return "hex scalar"
        inl = pm.inline(e, st)
        if inl is not None:
            r = dval(inl, st)
            st.depth -= 1
            return r
        die(st.where, e, "dictionary value `%s` is not one of the recognised fields" % ast.unparse(e)[:60])

    def dict_pairs(e, st):
        if isinstance(e, ast.Dict):
            if any(not (isinstance(k, ast.Constant) and isinstance(k.value, str)) for k in e.keys):
                die(st.where, e, "dictionary key that is not a string literal")
            pairs = [(k.value, v) for k, v in zip(e.keys, e.values)]
        elif (isinstance(e, ast.Call) and isinstance(e.func, ast.Name) and e.func.id == "dict" and not e.args
              and "dict" not in st.locals and pm.bindings.get("dict", 0) == 0 and all(k.arg is not None for k in e.keywords)):
            pairs = [(k.arg, k.value) for k in e.keywords]
        else:
            die(st.where, e, "`%s` is not a dictionary display" % ast.unparse(e)[:40])
        keys = [k for k, _ in pairs]
        if len(set(keys)) != len(keys) or any(not re.match(r"^[A-Za-z0-9_ .-]*$", k) for k in keys):
            die(st.where, e, "duplicate or unusual dictionary key")
        return [(k, dval(v, st)) for k, v in pairs]
    for lean, classes in (("asym", ["SPAKE2_A", "SPAKE2_B"]), ("sym", ["SPAKE2_Symmetric"])):
        c, fn = pm.method(classes, "_serialize_to_dict", 0)
        st = PSt(pm, "spake2.py:%s._serialize_to_dict" % c.name, "hash")
        body = [s for s in fn.body if not is_doc(s)]
        while (body and isinstance(body[0], ast.Assign) and len(body[0].targets) == 1 and isinstance(body[0].targets[0], ast.Name)
               and ast.unparse(body[0].value) == "self.params.group" and body[0].targets[0].id != "self"):
            st.locals[body[0].targets[0].id] = "group"
            body = body[1:]
        if len(body) == 1 and isinstance(body[0], ast.Return) and body[0].value is not None:
            pairs = dict_pairs(body[0].value, st)
        elif (len(body) == 2 and isinstance(body[0], ast.Assign) and len(body[0].targets) == 1 and isinstance(body[0].targets[0], ast.Name)
              and body[0].targets[0].id not in st.locals and body[0].targets[0].id != "self"
              and isinstance(body[1], ast.Return) and isinstance(body[1].value, ast.Name) and body[1].value.id == body[0].targets[0].id):
            pairs = dict_pairs(body[0].value, st)
        else:
            die(st.where, fn, "_serialize_to_dict is not `[g = self.params.group;] d = {...}; return d`")
        out.append("/-- the members of the dictionary built by `%s._serialize_to_dict` (used by %s), in order: (key, field) -/\n"
                   "def dict_keys_%s : List (String × String) :=\n  [%s]\n" % (
                       c.name, ", ".join(classes), lean, ", ".join("(%s, %s)" % (json.dumps(k), json.dumps(v)) for k, v in pairs)))

    # (d) the side checks
    for lean, classes, side in (("asym", ["SPAKE2_A", "SPAKE2_B"], "selfSide"), ("sym", ["SPAKE2_Symmetric"], sides["S"])):
        c, fn = pm.method(classes, "_extract_message", 1)
        st = PSt(pm, "spake2.py:%s._extract_message" % c.name, "R")
        p = fn.args.args[1].arg
        st.locals[p] = "bytes"
        st.atom = (lambda sd: lambda e, s: sd if (is_self_attr(e, "side") and "self" not in s.locals) else None)(side)
        body = pblock(fn.body, st, 2, lambda v, s: ".ok %s" % bexpr(v, s))
        out.append("/-- translated from `%s._extract_message` (used by %s)%s -/\ndef extract_%s %s(%s : Bytes) : R Bytes :=\n%s\n" % (
            c.name, ", ".join(classes), "; `selfSide` is `self.side`" if lean == "asym" else "; `self.side` is the class constant",
            lean, "(selfSide : Bytes) " if lean == "asym" else "", pname(p, st, fn), "\n".join(body)))
    out.append("end Spake2Model.Gen.Proto\n")
    return "\n".join(out), h


# ---------------------------------------------------------------------------------------
# class layer of ed25519_basic.py: ElementOfUnknownGroup / Element / _ZeroElement
# ---------------------------------------------------------------------------------------

EDSHAPE_HEADER = """-- GENERATED by tools/py2lean.py from src/spake2/ed25519_basic.py -- do not edit.
-- Shape of the class layer: the methods `scalarmult`, `add`, `negate` of `ElementOfUnknownGroup`, `Element`
-- and `_ZeroElement` (with Python's method resolution made explicit as a dispatch on the kind of the receiver)
-- and the checks of `bytes_to_element`.  An object is `(kind, XYTZ)`; `Zero` is the only object of kind `zero`.
-- `isinstance(x, C)` is a test on the kind, `x is Zero` is `kind = zero`.  The integer kernels are those of
-- `Gen/Ed25519Arith.lean` (their internal `assert n >= 0` is not repeated here).
-- `Spake2Verif/Proofs/EdShapeTie.lean` proves that the hand-written model `Model/Ed25519.lean` is exactly this.
import Spake2Model.Gen.Ed25519Arith
import Spake2Model.Model.Util
import Spake2Model.Model.Bytes
set_option linter.unusedVariables false
namespace Spake2Model.Gen.EdShape

/-- the class of a Python element object: `Element`, `ElementOfUnknownGroup`, `_ZeroElement` -/
inductive K | elem | unknown | zero
  deriving DecidableEq, Repr

abbrev P4 := Int × Int × Int × Int
"""

ED_KINDS = [("unknown", "ElementOfUnknownGroup"), ("zero", "_ZeroElement"), ("elem", "Element")]   # base class first
ED_METHODS = {"scalarmult": ("smul", ["int"]), "add": ("add", ["obj"]), "negate": ("negate", [])}
ED_PRIMS = {
    "add_elements": (["pt", "pt"], "Ed.add_elements Q d"),
    "scalarmult_element": (["pt", "int"], "Ed.scalarmult_element Q"),
    "scalarmult_element_safe_slow": (["pt", "int"], "Ed.scalarmult_element_safe_slow Q d"),
}
ED_RESERVED = (LEAN_RESERVED - {"self"}) | {"Q", "L", "d", "zeroPt", "K", "P4", "Ed", "Py", "Int", "Nat", "Bool", "True", "False", "e",
                               "smul", "add", "negate", "dec_checks", "decUnknown", "toBytes", "zero_pt", "not", "or", "and"}
ED_CMP = {ast.Eq: "=", ast.NotEq: "≠", ast.Lt: "<", ast.LtE: "≤", ast.Gt: ">", ast.GtE: "≥"}
ED_ARGS = "Q L d zeroPt"
ED_PARAMS = "(Q L d : Int) (zeroPt : P4)"


class ESt:
    def __init__(self, pm, where, emitted, extra=None):
        self.pm, self.where, self.emitted = pm, where, emitted
        self.locals = {}          # python local -> 'obj' | 'pt' | 'int' | 'bytes'
        self.extra = extra or {}  # 'decUnknown' / 'toBytes' available (bytes_to_element only)
        self.depth = 0
        self.budget = [600]
        self.binds = []           # fallible calls of the statement being translated, in evaluation order
        self.ntmp = [0]

    def fork(self):
        c = ESt(self.pm, self.where, self.emitted, self.extra)
        c.locals, c.depth, c.budget, c.ntmp = dict(self.locals), self.depth, self.budget, self.ntmp
        return c

    def bind(self, rexpr):
        self.ntmp[0] += 1
        t = "r_%d" % self.ntmp[0]
        self.binds.append((t, rexpr))
        return t

    def tick(self, node):
        self.budget[0] -= 1
        if self.budget[0] < 0:
            die(self.where, node, "function too large")

    def glob(self, name):
        """`name` refers to its single module-level binding"""
        return name not in self.locals and self.pm.once(name)


def ename(n, st, node=None):
    if not re.match(r"^[A-Za-z_][A-Za-z0-9_]*$", n) or n in ED_RESERVED or n.startswith("__") or re.match(r"^r_\d+$", n):
        die(st.where, node, "local name %s cannot be used in the generated Lean" % n)
    return n


def ed_kind_of_class(cname):
    for k, c in ED_KINDS:
        if c == cname:
            return k
    return None


def eargs(call, want, st):
    if not plain_call(call, len(want)):
        die(st.where, call, "`%s`: expected %d positional argument(s)" % (ast.unparse(call)[:50], len(want)))
    out = []
    for a, w in zip(call.args, want):
        t, v = ex(a, st)
        if t != w:
            die(st.where, a, "`%s` is %s where %s is expected" % (ast.unparse(a)[:40], t, w))
        out.append(v)
    return out


def ex(e, st):
    """an expression -> (type, Lean term); fallible calls are bound first (st.binds), in Python's evaluation order"""
    st.tick(e)
    pm = st.pm
    if isinstance(e, ast.Name):
        if e.id in st.locals:
            return st.locals[e.id], ename(e.id, st, e)
        if e.id == "Zero" and st.glob("Zero"):
            return "obj", "(K.zero, zeroPt)"
        if e.id == "L" and st.glob("L"):
            return "int", "L"
        die(st.where, e, "name %s is not a local, Zero or L" % e.id)
    if isinstance(e, ast.Constant) and type(e.value) is int:
        return "int", "(%d : Int)" % e.value
    if isinstance(e, ast.Attribute) and e.attr == "XYTZ":
        t, v = ex(e.value, st)
        if t != "obj":
            die(st.where, e, ".XYTZ of something that is not an element object")
        return "pt", "%s.2" % v
    if isinstance(e, ast.BinOp) and type(e.op) in (ast.Mod, ast.Add, ast.Sub, ast.Mult):
        tl, l = ex(e.left, st)
        tr, r = ex(e.right, st)
        if tl != "int" or tr != "int":
            die(st.where, e, "arithmetic on non-integers")
        return "int", "(%s %s %s)" % (l, {ast.Mod: "%", ast.Add: "+", ast.Sub: "-", ast.Mult: "*"}[type(e.op)], r)
    if isinstance(e, ast.UnaryOp) and isinstance(e.op, ast.USub):
        t, v = ex(e.operand, st)
        if t != "int":
            die(st.where, e, "negation of a non-integer")
        return "int", "(-%s)" % v
    if isinstance(e, ast.Call):
        f = e.func
        if isinstance(f, ast.Name):
            if f.id in ED_PRIMS and st.glob(f.id) and f.id in pm.fns:
                want, lean = ED_PRIMS[f.id]
                return "pt", "(%s %s)" % (lean, " ".join(eargs(e, want, st)))
            if f.id in ("Element", "ElementOfUnknownGroup") and st.glob(f.id) and f.id in pm.classes:
                return "obj", "(K.%s, %s)" % (ed_kind_of_class(f.id), eargs(e, ["pt"], st)[0])
            if f.id == "bytes_to_unknown_group_element" and "decUnknown" in st.extra and st.glob(f.id):
                return "obj", st.bind("decUnknown %s" % eargs(e, ["bytes"], st)[0])
            if f.id in pm.fns and f.id not in ED_PRIMS and f.id != "is_extended_zero":
                inl = pm.inline(e, st)
                if inl is not None:
                    r = ex(inl, st)
                    st.depth -= 1
                    return r
        if isinstance(f, ast.Attribute):
            if isinstance(f.value, ast.Name) and ed_kind_of_class(f.value.id) and st.glob(f.value.id) and f.attr in ED_METHODS:
                # explicit base-class call  C.m(obj, ...)
                lean, want = ED_METHODS[f.attr]
                target = "%s_%s" % (lean, ed_kind_of_class(f.value.id))
                if target not in st.emitted:
                    die(st.where, e, "call of %s.%s before it is translated (recursion?)" % (f.value.id, f.attr))
                a = eargs(e, ["obj"] + want, st)
                return "obj", st.bind("%s %s %s" % (target, ED_ARGS, " ".join(a)))
            if f.attr in ED_METHODS:
                lean, want = ED_METHODS[f.attr]
                t, v = ex(f.value, st)
                if t != "obj":
                    die(st.where, e, "method call on something that is not an element object")
                if lean not in st.emitted:
                    die(st.where, e, "call of .%s before it is translated (recursion?)" % f.attr)
                a = eargs(e, want, st)
                return "obj", st.bind("%s %s %s" % (lean, ED_ARGS, " ".join([v] + a)))
            if f.attr == "to_bytes" and "toBytes" in st.extra and plain_call(e, 0):
                t, v = ex(f.value, st)
                if t != "obj":
                    die(st.where, e, "to_bytes of something that is not an element object")
                return "bytes", "(toBytes %s)" % v
    die(st.where, e, "expression `%s`" % ast.unparse(e)[:60])


def econd(e, st):
    """a condition -> a decidable Lean Prop"""
    st.tick(e)
    pm = st.pm
    if isinstance(e, ast.BoolOp):
        parts = []
        for i, v in enumerate(e.values):
            n = len(st.binds)
            parts.append(econd(v, st))
            if i > 0 and len(st.binds) != n:
                die(st.where, v, "fallible call under a short-circuit operator")
        return "(" + (" ∧ " if isinstance(e.op, ast.And) else " ∨ ").join(parts) + ")"
    if isinstance(e, ast.UnaryOp) and isinstance(e.op, ast.Not):
        return "(¬ %s)" % econd(e.operand, st)
    if isinstance(e, ast.Compare) and len(e.ops) == 1:
        op, r = e.ops[0], e.comparators[0]
        if isinstance(op, (ast.Is, ast.IsNot)):
            if not (isinstance(r, ast.Name) and r.id == "Zero" and st.glob("Zero")):
                die(st.where, e, "identity test against something other than Zero")
            t, v = ex(e.left, st)
            if t != "obj":
                die(st.where, e, "`is Zero` on something that is not an element object")
            c = "(%s.1 = K.zero)" % v
            return c if isinstance(op, ast.Is) else "(¬ %s)" % c
        if type(op) in ED_CMP:
            tl, l = ex(e.left, st)
            tr, rr = ex(r, st)
            if tl == tr == "int" or (tl == tr == "bytes" and isinstance(op, (ast.Eq, ast.NotEq))):
                return "(%s %s %s)" % (l, ED_CMP[type(op)], rr)
        die(st.where, e, "comparison `%s`" % ast.unparse(e)[:60])
    if isinstance(e, ast.Call) and isinstance(e.func, ast.Name):
        f = e.func.id
        if f == "isinstance" and f not in st.locals and pm.bindings.get(f, 0) == 0 and plain_call(e, 2):
            c = e.args[1]
            if not (isinstance(c, ast.Name) and ed_kind_of_class(c.id) and st.glob(c.id)):
                die(st.where, e, "isinstance against something other than the three element classes")
            t, v = ex(e.args[0], st)
            if t == "int":
                return "False"
            if t != "obj":
                die(st.where, e, "isinstance of a %s" % t)
            ks = [k for k, cn in ED_KINDS if c.id in [x.name for x in pm.mro(cn)]]
            if len(ks) == len(ED_KINDS):
                return "True"
            return "(" + " ∨ ".join("%s.1 = K.%s" % (v, k) for k in ks) + ")"
        if f == "is_extended_zero" and st.glob(f) and f in pm.fns:
            return "(Ed.is_extended_zero Q %s = true)" % eargs(e, ["pt"], st)[0]
        if f in pm.fns and f not in ED_PRIMS:
            inl = pm.inline(e, st)
            if inl is not None:
                r = econd(inl, st)
                st.depth -= 1
                return r
    die(st.where, e, "condition `%s`" % ast.unparse(e)[:60])


def ed_raise(s, st):
    exc = s.exc
    if isinstance(exc, ast.Call) and not exc.keywords and all(isinstance(a, ast.Constant) and isinstance(a.value, str) for a in exc.args):
        exc = exc.func
    if (s.cause is None and isinstance(exc, ast.Name) and exc.id not in st.locals and exc.id in PY_ERRS
            and st.pm.bindings.get(exc.id, 0) == 0):
        return "raise .%s" % exc.id
    die(st.where, s, "raise of something other than a builtin exception with a literal message")


def ed_helper_stmts(s, st):
    """`self.h(a, ...)` as a statement, for a check-only helper method `h` defined once in the three classes (so that
    it resolves to the same code whatever the class of self): its `if c: raise E` / `assert c` statements with the
    arguments substituted (None when `s` is not such a statement)"""
    pm = st.pm
    c = s.value
    if not (isinstance(s, ast.Expr) and isinstance(c, ast.Call) and isinstance(c.func, ast.Attribute)
            and isinstance(c.func.value, ast.Name) and st.locals.get(c.func.value.id) == "obj"):
        return None
    defs = [(cd, n) for _, cn in ED_KINDS for cd in [pm.classes[cn]] for n in cd.body
            if isinstance(n, (ast.FunctionDef, ast.AsyncFunctionDef, ast.ClassDef)) and n.name == c.func.attr]
    if len(defs) != 1 or not isinstance(defs[0][1], ast.FunctionDef) or defs[0][0].name != ED_KINDS[0][1]:
        die(st.where, s, "helper %s is not defined exactly once, in the base class" % c.func.attr)
    fn = defs[0][1]
    a = fn.args
    static = len(fn.decorator_list) == 1 and isinstance(fn.decorator_list[0], ast.Name) and fn.decorator_list[0].id == "staticmethod" \
        and pm.bindings.get("staticmethod", 0) == 0
    if (fn.decorator_list and not static) or a.vararg or a.kwarg or a.kwonlyargs or a.defaults or getattr(a, "posonlyargs", []):
        die(st.where, fn, "helper %s: unsupported signature / decorator" % fn.name)
    actual = ([] if static else [c.func.value]) + list(c.args)
    params = [x.arg for x in a.args]
    if c.keywords or len(actual) != len(params) or len(set(params)) != len(params) or not all(isinstance(x, ast.Name) for x in actual):
        die(st.where, s, "helper %s: not called with plain names for all parameters" % fn.name)
    amap = dict(zip(params, actual))
    body = [x for x in fn.body if not is_doc(x) and not isinstance(x, ast.Pass)]
    for x in body:
        ok = isinstance(x, ast.Assert) or (isinstance(x, ast.If) and not x.orelse and len(x.body) == 1 and isinstance(x.body[0], ast.Raise))
        if not ok:
            die(st.where, x, "helper %s does something other than `if c: raise E` / `assert c`" % fn.name)
        for y in ast.walk(x):
            if isinstance(y, ast.Name) and y.id not in amap and y.id in st.locals:
                die(st.where, x, "helper %s: a global it reads is shadowed by a local of the caller" % fn.name)
            if isinstance(y, (ast.Lambda, ast.ListComp, ast.SetComp, ast.DictComp, ast.GeneratorExp, ast.NamedExpr)):
                die(st.where, x, "helper %s: unsupported expression" % fn.name)
    import copy

    class Sub(ast.NodeTransformer):
        def visit_Name(self, node):
            return copy.deepcopy(amap[node.id]) if node.id in amap else node
    return [ast.fix_missing_locations(Sub().visit(copy.deepcopy(x))) for x in body]


def eblock(ss, st, ind):
    """statements -> Lean lines, continuation style (what follows an `if` is copied into the arms that fall through)"""
    lines = []

    def flush(ind):
        for t, r in st.binds:
            pad = " " * ind
            lines.append("%smatch %s with" % (pad, r))
            lines.append("%s| .error e => .error e" % pad)
            lines.append("%s| .ok %s =>" % (pad, t))
            ind += 2
        st.binds = []
        return ind
    for idx, s in enumerate(ss):
        rest = ss[idx + 1:]
        st.tick(s)
        if is_doc(s) or isinstance(s, ast.Pass):
            continue
        if isinstance(s, ast.Expr):
            h = ed_helper_stmts(s, st)
            if h is None:
                die(st.where, s, "statement `%s`" % ast.unparse(s).split("\n")[0][:60])
            st.depth += 1
            if st.depth > 6:
                die(st.where, s, "helper calls nested too deeply")
            return lines + eblock(h + rest, st, ind)
        if isinstance(s, ast.Assign):
            if len(s.targets) != 1 or not isinstance(s.targets[0], ast.Name):
                die(st.where, s, "assignment `%s`" % ast.unparse(s)[:60])
            n = s.targets[0].id
            t, v = ex(s.value, st)
            if st.locals.get(n, t) != t:
                die(st.where, s, "local %s changes its type" % n)
            if n not in st.locals and st.pm.bindings.get(n, 0) and n in ("Zero", "L", "Q", "d"):
                die(st.where, s, "local %s shadows a module constant" % n)
            ind = flush(ind)
            lines.append("%slet %s := %s" % (" " * ind, ename(n, st, s), v))
            st.locals[n] = t
            continue
        if isinstance(s, ast.Return):
            if s.value is None:
                die(st.where, s, "return without a value")
            t, v = ex(s.value, st)
            if t != "obj":
                die(st.where, s, "returns a %s, not an element object" % t)
            ind = flush(ind)
            lines.append("%s.ok %s" % (" " * ind, v))
            return lines
        if isinstance(s, ast.Raise):
            lines.append(" " * ind + ed_raise(s, st))
            return lines
        if isinstance(s, ast.Assert):
            if s.msg is not None and not isinstance(s.msg, ast.Constant):
                die(st.where, s, "assert with a computed message")
            c = econd(s.test, st)
            ind = flush(ind)
            lines.append("%sif %s then" % (" " * ind, c))
            lines += eblock(rest, st.fork(), ind + 2)
            lines.append("%selse raise .AssertionError" % (" " * ind))
            return lines
        if isinstance(s, ast.If):
            c = econd(s.test, st)
            ind = flush(ind)
            arm1 = s.body + ([] if terminates(s.body) else rest)
            arm2 = s.orelse + ([] if terminates(s.orelse) else rest)
            lines.append("%sif %s then" % (" " * ind, c))
            lines += eblock(arm1, st.fork(), ind + 2)
            lines.append("%selse" % (" " * ind))
            lines += eblock(arm2, st.fork(), ind + 2)
            return lines
        die(st.where, s, "statement `%s`" % ast.unparse(s).split("\n")[0][:60])
    die(st.where, ss[-1] if ss else None, "control reaches the end of the function without return / raise")


def ed_check_classes(pm, mod):
    """the facts about the three classes that the (kind, XYTZ) representation relies on"""
    w = "ed25519_basic.py"
    names = [c for _, c in ED_KINDS]
    for k, cn in ED_KINDS:
        m = [x.name for x in pm.mro(cn)]
        if m != ([cn] if k == "unknown" else [cn, ED_KINDS[0][1]]):
            die(w, pm.classes[cn], "class %s: unexpected base classes" % cn)
        for n in pm.classes[cn].body:
            if is_doc(n) or isinstance(n, ast.Pass):
                continue
            if not isinstance(n, ast.FunctionDef):
                die(w, n, "class %s: something other than a method in the class body" % cn)
            if n.name == "XYTZ" or (n.name.startswith("__") and n.name not in ("__init__", "__eq__", "__ne__")):
                die(w, n, "class %s: special method / attribute %s" % (cn, n.name))
            if n.name == "__init__":
                body = [ast.unparse(x) for x in n.body if not is_doc(x)]
                a = n.args
                if (k != "unknown" or n.decorator_list or [x.arg for x in a.args] != ["self", "XYTZ"] or a.vararg or a.kwarg or a.kwonlyargs
                        or a.defaults or body.count("self.XYTZ = XYTZ") != 1
                        or any(b not in ("self.XYTZ = XYTZ", "assert isinstance(XYTZ, tuple)", "assert len(XYTZ) == 4") for b in body)):
                    die(w, n, "%s.__init__ is not `self.XYTZ = XYTZ` (with the two assertions)" % cn)
    if "__init__" not in [n.name for n in pm.classes[ED_KINDS[0][1]].body if isinstance(n, ast.FunctionDef)]:
        die(w, pm.classes[ED_KINDS[0][1]], "no __init__")
    for n in ast.walk(mod):
        if isinstance(n, ast.ClassDef) and n.name not in names and any(isinstance(x, ast.Name) and x.id in names for b in n.bases for x in ast.walk(b)):
            die(w, n, "another subclass of the element classes")
        if isinstance(n, ast.Attribute) and isinstance(n.ctx, (ast.Store, ast.Del)):
            if n.attr in ("XYTZ", "__class__", "__dict__") and ast.unparse(n) != "self.XYTZ":
                die(w, n, "store to .%s" % n.attr)
            if isinstance(n.value, ast.Name) and (n.value.id in names or n.value.id == "Zero"):
                die(w, n, "store to an attribute of %s" % n.value.id)
        if isinstance(n, ast.Call) and isinstance(n.func, ast.Name) and n.func.id in ("setattr", "delattr", "_ZeroElement"):
            if not (n.func.id == "_ZeroElement" and ast.unparse(n) == "_ZeroElement(xform_affine_to_extended((0, 1)))"):
                die(w, n, "call of %s" % n.func.id)
    stores = [n for n in ast.walk(mod) if isinstance(n, ast.Attribute) and isinstance(n.ctx, ast.Store) and n.attr == "XYTZ"]
    if len(stores) != 1:
        die(w, mod, "XYTZ is stored more than once")
    z = [n for n in mod.body if isinstance(n, ast.Assign) and any(isinstance(x, ast.Name) and x.id == "Zero" for t in n.targets for x in ast.walk(t))]
    if (len(z) != 1 or not pm.once("Zero") or ast.unparse(z[0]) != "Zero = _ZeroElement(xform_affine_to_extended((0, 1)))"
            or not pm.once("xform_affine_to_extended") or not pm.once("L")):
        die(w, z[0] if z else mod, "Zero is not `_ZeroElement(xform_affine_to_extended((0,1)))`, bound once")
    calls = [n for n in ast.walk(mod) if isinstance(n, ast.Call) and isinstance(n.func, ast.Name) and n.func.id == "_ZeroElement"]
    if len(calls) != 1:
        die(w, mod, "_ZeroElement is instantiated more than once")


def gen_edshape():
    src, mod, h = read("ed25519_basic.py")
    w = "ed25519_basic.py"
    pm = ProtoMod(mod, w)
    ed_check_classes(pm, mod)
    out = [EDSHAPE_HEADER]
    out.append("/-- the coordinates of `Zero = _ZeroElement(xform_affine_to_extended((0,1)))` -/\n"
               "def zero_pt (Q : Int) : P4 := Ed.xform_affine_to_extended Q ((0 : Int), (1 : Int))\n")
    emitted = set()
    for pyname in ("scalarmult", "add", "negate"):
        lean, want = ED_METHODS[pyname]
        for k, cn in ED_KINDS:
            try:
                c, fn = pm.member(cn, pyname)
            except Untranslatable as e:
                if pyname != "negate" or not str(e).endswith("%s.%s not found" % (cn, pyname)):
                    raise
                c, fn = None, None
            target = "%s_%s" % (lean, k)
            if fn is None:
                out.append("/-- `%s` has no method `%s` -/\ndef %s %s (self : K × P4) : R (K × P4) :=\n  raise .AttributeError\n" % (
                    cn, pyname, target, ED_PARAMS))
                emitted.add(target)
                continue
            st = ESt(pm, "%s:%s.%s" % (w, c.name, pyname), emitted)
            a = getattr(fn, "args", None)
            if (not isinstance(fn, ast.FunctionDef) or fn.decorator_list or a.vararg or a.kwarg or a.kwonlyargs or a.defaults
                    or getattr(a, "posonlyargs", []) or len(a.args) != len(want) + 1 or len({x.arg for x in a.args}) != len(a.args)):
                die(w, fn, "%s.%s is not a plain method with %d parameter(s)" % (c.name, pyname, len(want)))
            ps = []
            for x, t in zip(a.args, ["obj"] + want):
                st.locals[x.arg] = t
                ps.append("(%s : %s)" % (ename(x.arg, st, fn), {"obj": "K × P4", "int": "Int"}[t]))
            body = eblock(fn.body, st, 2)
            out.append("/-- translated from `%s.%s`%s -/\ndef %s %s %s : R (K × P4) :=\n%s\n" % (
                c.name, pyname, "" if c.name == cn else " (inherited by `%s`)" % cn, target, ED_PARAMS, " ".join(ps), "\n".join(body)))
            emitted.add(target)
        extra = " (s : Int)" if want == ["int"] else " (b : K × P4)" if want == ["obj"] else ""
        ar = " s" if want == ["int"] else " b" if want == ["obj"] else ""
        out.append("/-- `a.%s(...)`: the method Python resolves for the class of `a` -/\ndef %s %s (a : K × P4)%s : R (K × P4) :=\n"
                   "  match a.1 with\n%s\n" % (pyname, lean, ED_PARAMS, extra, "\n".join(
                       "  | .%s => %s_%s %s a%s" % (k, lean, k, ED_ARGS, ar) for k, _ in reversed(ED_KINDS))))
        emitted.add(lean)

    # bytes_to_element: the checks after decoding (decoding and to_bytes are parameters)
    fn = plain_function(pm, "bytes_to_element", 1)
    st = ESt(pm, w + ":bytes_to_element", emitted, {"decUnknown": 1, "toBytes": 1})
    p = fn.args.args[0].arg
    st.locals[p] = "bytes"
    body = eblock(fn.body, st, 2)
    out.append("/-- translated from `bytes_to_element`; `decUnknown` is `bytes_to_unknown_group_element`, `toBytes` is `to_bytes` -/\n"
               "def dec_checks %s (decUnknown : Bytes → R (K × P4)) (toBytes : K × P4 → Bytes) (%s : Bytes) : R (K × P4) :=\n%s\n" % (
                   ED_PARAMS, ename(p, st, fn), "\n".join(body)))
    out.append("end Spake2Model.Gen.EdShape\n")
    return "\n".join(out), h


def write_if_changed(path, txt):
    old = open(path).read() if os.path.exists(path) else None
    if old != txt:
        os.makedirs(os.path.dirname(path), exist_ok=True)
        with open(path + ".tmp", "w") as f:
            f.write(txt)
        os.replace(path + ".tmp", path)
        return True
    return False


def main():
    report = {"ok": True, "files": {}, "errors": [], "changed": []}
    jobs = [("Ed25519Arith.lean", gen_ed25519), ("IntGroupArith.lean", gen_intgroup), ("UtilArith.lean", gen_util), ("Consts.lean", gen_consts),
            ("ProtoShape.lean", gen_proto), ("EdShape.lean", gen_edshape)]
    from py2lean_protoflow import gen_protoflow
    jobs.append(("ProtoFlow.lean", gen_protoflow))
    from py2lean_groupshape import gen_groupshape
    jobs.append(("GroupShape.lean", gen_groupshape))
    for fname, job in jobs:
        try:
            txt, h = job()
            if write_if_changed(os.path.join(OUT, fname), txt):
                report["changed"].append(fname)
            report["files"][fname] = h
        except Untranslatable as e:
            report["ok"] = False
            report["errors"].append("%s: %s" % (fname, e))
        except (SyntaxError, KeyError, IndexError, AttributeError, TypeError) as e:
            report["ok"] = False
            report["errors"].append("%s: %s: %s" % (fname, type(e).__name__, e))
    print(json.dumps(report, indent=1))
    sys.exit(0 if report["ok"] else 3)


if __name__ == "__main__":
    main()
