#!/usr/bin/env python3
"""Static write analysis of src/spake2/*.py (supporting evidence for C16, never a verdict):
lists every store that is not to a local variable or to an attribute of `self`/`klass`-created
instance inside a function, every `global` statement, and every module-level mutable container."""
import ast, json, os, sys
REPO = os.environ.get("VERIF_REPO", "/repo")
SRC = os.path.join(REPO, "src", "spake2")


def analyse(path):
    mod = ast.parse(open(path).read())
    out = {"module_level_mutable": [], "non_self_stores_in_functions": [], "globals": [], "mutating_calls_on_module_names": []}
    module_names = set()
    for n in mod.body:
        if isinstance(n, ast.Assign):
            for t in n.targets:
                if isinstance(t, ast.Name):
                    module_names.add(t.id)
                    if isinstance(n.value, (ast.Dict, ast.List, ast.Set, ast.ListComp, ast.DictComp, ast.SetComp)) or (
                            isinstance(n.value, ast.Call) and isinstance(n.value.func, ast.Name) and n.value.func.id in ("dict", "list", "set", "bytearray")):
                        out["module_level_mutable"].append("%s (line %d)" % (t.id, n.lineno))
    for cls in [n for n in ast.walk(mod) if isinstance(n, ast.ClassDef)]:
        for n in cls.body:
            if isinstance(n, ast.Assign) and isinstance(n.value, (ast.Dict, ast.List, ast.Set)):
                out.setdefault("class_level_mutable", []).append("%s.%s (line %d)" % (cls.name, ast.unparse(n.targets[0]), n.lineno))
    for fn in [n for n in ast.walk(mod) if isinstance(n, (ast.FunctionDef, ast.AsyncFunctionDef))]:
        params = {a.arg for a in fn.args.args}
        locals_ = set(params)
        for n in ast.walk(fn):
            if isinstance(n, ast.Global):
                out["globals"].append("%s: global %s (line %d)" % (fn.name, ",".join(n.names), n.lineno))
            if isinstance(n, (ast.Assign, ast.AugAssign, ast.AnnAssign)):
                targets = n.targets if isinstance(n, ast.Assign) else [n.target]
                for t in targets:
                    for tt in (t.elts if isinstance(t, (ast.Tuple, ast.List)) else [t]):
                        if isinstance(tt, ast.Name):
                            locals_.add(tt.id)
        for n in ast.walk(fn):
            if isinstance(n, (ast.Assign, ast.AugAssign)):
                targets = n.targets if isinstance(n, ast.Assign) else [n.target]
                for t in targets:
                    base = t
                    while isinstance(base, (ast.Attribute, ast.Subscript)):
                        base = base.value
                    if isinstance(t, (ast.Attribute, ast.Subscript)) and isinstance(base, ast.Name):
                        if base.id == "self" or (base.id in locals_ and base.id not in module_names):
                            continue
                        out["non_self_stores_in_functions"].append("%s: %s (line %d)" % (fn.name, ast.unparse(t), n.lineno))
            if isinstance(n, ast.Call) and isinstance(n.func, ast.Attribute) and n.func.attr in ("append", "update", "setdefault", "pop", "clear", "add", "extend", "insert", "remove"):
                base = n.func.value
                if isinstance(base, ast.Name) and base.id in module_names and base.id not in locals_:
                    out["mutating_calls_on_module_names"].append("%s: %s (line %d)" % (fn.name, ast.unparse(n.func), n.lineno))
    return out


def main():
    rep = {}
    for d, _, fs in os.walk(SRC):
        if os.sep + "test" in d:
            continue
        for f in sorted(fs):
            if f.endswith(".py") and f != "_version.py":
                p = os.path.join(d, f)
                a = analyse(p)
                if any(a.values()):
                    rep[os.path.relpath(p, REPO)] = {k: v for k, v in a.items() if v}
    print(json.dumps(rep, indent=1))


if __name__ == "__main__":
    main()
