#!/usr/bin/env python3
"""copy finished seeded changes from the sub-agents' scratch worktrees into /verif/seeded/"""
import json, os, shutil, sys
only = [a for a in sys.argv[1:] if not a.startswith("--")]
rnd = [a[8:] for a in sys.argv[1:] if a.startswith("--round=")]
suffix = ("r%s-" % rnd[0]) if rnd else ""
# --src=/tmp/r6/%s : where the sub-agents worked (default: /tmp/seed_<pid>)
srcpat = ([a[6:] for a in sys.argv[1:] if a.startswith("--src=")] or ["/tmp/seed_%s"])[0]
for i in range(1, 19):
    pid = "C%02d" % i
    if only and pid not in only:
        continue
    for n in (1, 2, 3):
        src = "%s/out/%d" % (srcpat % pid, n)
        dst = "/verif/seeded/%s-%s%d" % (pid, suffix, n)
        if not all(os.path.exists(os.path.join(src, f)) for f in ("patch.diff", "demo.py", "meta.json")) or os.path.exists(dst):
            continue
        os.makedirs(dst)
        for f in ("patch.diff", "demo.py"):
            shutil.copy(os.path.join(src, f), dst)
        try:
            m = json.load(open(os.path.join(src, "meta.json")))
        except Exception:
            m = {}
        meta = {"property_id": pid, "summary": m.get("summary", ""), "needs_to_manifest": m.get("needs_to_manifest", ""),
                "files_touched": m.get("files_touched", []),
                "origin": "fresh sub-agent given only the property text and a scratch worktree of /repo",
                "confirmed_by": "tools/run_seeded.py: patch applied to /repo -> existing suite passes, demo.py fails; patch reverted -> demo.py passes (see seeded/RESULTS.json)"}
        # demo paths: make it runnable from /repo
        d = open(os.path.join(dst, "demo.py")).read().replace(srcpat % pid, "/repo")
        open(os.path.join(dst, "demo.py"), "w").write(d)
        json.dump(meta, open(os.path.join(dst, "meta.json"), "w"), indent=1)
        print("collected", dst)
