#!/bin/sh
# Re-pin the generated model: regenerate Gen/*.lean from /repo, build EVERYTHING (model, proofs, all
# property modules) and, only if that succeeds, copy Gen/*.lean to lean/GenPinned/.  Run this after a
# deliberate change of /repo (e.g. a `fix:` commit) has been verified; commit the result.
set -e
cd "$(dirname "$0")/.."
/venv/bin/python tools/py2lean.py > /dev/null
./setup.sh | tail -1 | grep -q "Build completed successfully"
cp lean/Spake2Model/Gen/*.lean lean/GenPinned/
echo "pinned: $(ls lean/GenPinned)"
