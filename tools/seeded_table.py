#!/usr/bin/env python3
"""print the markdown table `id | change | reported as | first reason printed` for the seeded changes whose id contains
one of the given tags (e.g. `tools/seeded_table.py -r5- -r6-`), from seeded/RESULTS.json and seeded/<id>/meta.json"""
import json, os, sys
HERE = os.path.dirname(os.path.abspath(__file__))
SEEDED = os.path.join(os.path.dirname(HERE), "seeded")
res = ([a[10:] for a in sys.argv[1:] if a.startswith("--results=")] or [os.path.join(SEEDED, "RESULTS.json")])[0]
R = json.load(open(res))
tags = [a for a in sys.argv[1:] if not a.startswith("--results=")]
print("| id | change | reported as | first reason printed |\n|---|---|---|---|")
for sid in sorted(R):
    if tags and not any(t in sid for t in tags):
        continue
    v = R[sid]
    meta = json.load(open(os.path.join(SEEDED, sid, "meta.json")))
    c = v.get("checks", {}).get(v.get("property"), {})
    if not v.get("caught_by_own_check"):
        how, why = "not caught (see text)", ""
    elif c.get("no_failing_input_found"):
        how, why = "broken obligation (no-failing-input-found)", (c.get("why") or [""])[0]
    else:
        how, why = "failing input + replay", (c.get("why") or [""])[0]
    why = why.replace("failing input: ", "").replace("obligation no longer checks: ", "").replace("|", "/")
    print("| %s | %s | %s | %s |" % (sid, meta.get("summary", "").replace("|", "/").replace("\n", " ")[:150], how, why[:110]))
