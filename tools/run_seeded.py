#!/usr/bin/env python3
"""Apply each seeded change under /verif/seeded/<id>/ to /repo, confirm it (tests still pass,
demonstration fails), run the registered quick check of the property it breaks (and, with
--all, every other check), undo the change, and record which checks caught it.

usage: tools/run_seeded.py [--all] [--isolated [--tag=X]] [--results=FILE] [id ...]
"""
import json, os, subprocess, sys, time
HERE = os.path.dirname(os.path.abspath(__file__))
VERIF = os.path.dirname(HERE)
SEEDED = os.path.join(VERIF, "seeded")
REPO = "/repo"
# --isolated: work on a scratch worktree of /repo and a private copy of /verif, so that checks of the
# unchanged tree can run at the same time (equivalent to apply / run / undo on /repo itself)
TAG = ([a[6:] for a in sys.argv if a.startswith("--tag=")] or [""])[0]
if "--isolated" in sys.argv:
    REPO = "/tmp/seeded_repo" + TAG
    subprocess.run("git -C /repo worktree remove --force %s 2>/dev/null; git -C /repo worktree add -q %s HEAD" % (REPO, REPO), shell=True)
    PRIV = "/tmp/seeded_verif" + TAG
    subprocess.run("rm -rf %s && cp -r %s %s && rm -rf %s/replays %s/work && mkdir -p %s/work" % (PRIV, VERIF, PRIV, PRIV, PRIV, PRIV), shell=True)
    CHECK_DIR = PRIV
    os.environ["VERIF_REPO"] = REPO
else:
    CHECK_DIR = VERIF


def sh(cmd, cwd=None, env=None, timeout=3600):
    p = subprocess.run(cmd, cwd=cwd, env=env, stdout=subprocess.PIPE, stderr=subprocess.STDOUT, timeout=timeout, shell=isinstance(cmd, str))
    return p.returncode, p.stdout.decode(errors="replace")


def clean():
    rc, out = sh("git -C %s status --porcelain --untracked-files=no" % REPO)
    return out.strip() == ""


def main():
    args = [a for a in sys.argv[1:] if not a.startswith("--")]
    run_all = "--all" in sys.argv
    ids = args or sorted(d for d in os.listdir(SEEDED) if os.path.isfile(os.path.join(SEEDED, d, "meta.json")))
    res_path = ([a[10:] for a in sys.argv if a.startswith("--results=")] or [os.path.join(SEEDED, "RESULTS.json")])[0]
    results = json.load(open(res_path)) if os.path.exists(res_path) else {}
    props = ["C%02d" % i for i in range(1, 19)]
    # evidence files must describe runs on the unchanged tree: keep them aside while changes are applied
    import shutil, tempfile
    if CHECK_DIR != VERIF:
        try:
            run(ids, results, res_path, props, run_all)
        finally:
            sh(["git", "-C", REPO, "checkout", "--", "."])
        return
    os.makedirs(os.path.join(VERIF, "work"), exist_ok=True)
    keep = tempfile.mkdtemp(prefix="evidence_keep_", dir=os.path.join(VERIF, "work"))
    shutil.copytree(os.path.join(VERIF, "evidence"), os.path.join(keep, "evidence"))
    try:
        run(ids, results, res_path, props, run_all)
    finally:
        shutil.rmtree(os.path.join(VERIF, "evidence"))
        shutil.copytree(os.path.join(keep, "evidence"), os.path.join(VERIF, "evidence"))
        shutil.rmtree(keep)
        sh(["git", "-C", REPO, "checkout", "--", "."])
    # leave the generated files and the build in the state of the unchanged tree
    sh(["/venv/bin/python", os.path.join(VERIF, "tools", "py2lean.py")])
    sh(["lake", "build", "driver"], cwd=os.path.join(VERIF, "lean"))


def run(ids, results, res_path, props, run_all):
    for sid in ids:
        d = os.path.join(SEEDED, sid)
        meta = json.load(open(os.path.join(d, "meta.json")))
        prop = meta["property_id"]
        assert clean(), "/repo has uncommitted changes"
        rec = {"property": prop}
        try:
            rc, out = sh(["git", "-C", REPO, "apply", os.path.join(d, "patch.diff")])
            if rc != 0:
                rec["error"] = "patch does not apply: " + out[-300:]
                results[sid] = rec
                continue
            rc, out = sh("/venv/bin/python -m pytest -q -p no:cacheprovider 2>&1 | tail -1", cwd=REPO, env=dict(os.environ, PYTHONPATH=os.path.join(REPO, "src")))
            rec["tests"] = out.strip()
            env = dict(os.environ, PYTHONPATH=os.path.join(REPO, "src"))
            rc, out = sh(["/venv/bin/python", os.path.join(d, "demo.py")], cwd=REPO, env=env, timeout=600)
            rec["demo_fails_with_change"] = rc != 0
            todo = [prop] + ([p for p in props if p != prop] if run_all else [])
            caught = {}
            for p in todo:
                t0 = time.time()
                rc, out = sh([os.path.join(CHECK_DIR, "check"), p, "--tier", "quick"], cwd=CHECK_DIR, timeout=3000)
                viol = [l for l in out.split("\n") if l.startswith("VIOLATION")]
                why = [l for l in out.split("\n") if l.startswith(("failing input", "obligation no longer"))][:3]
                caught[p] = {"exit": rc, "violation": bool(viol), "no_failing_input_found": any("no-failing-input-found" in v for v in viol),
                             "why": [w[:300] for w in why], "wall_s": round(time.time() - t0, 1)}
                if not viol:
                    caught[p]["output_tail"] = out[-1500:]
            rec["checks"] = caught
            rec["caught_by_own_check"] = caught[prop]["exit"] == 1 and caught[prop]["violation"]
            rec["caught_by"] = sorted(p for p, c in caught.items() if c["exit"] == 1 and c["violation"])
        finally:
            sh(["git", "-C", REPO, "checkout", "--", "."])
        rc, out = sh(["/venv/bin/python", os.path.join(d, "demo.py")], cwd=REPO, env=dict(os.environ, PYTHONPATH=os.path.join(REPO, "src")), timeout=600)
        rec["demo_passes_without_change"] = rc == 0
        results[sid] = rec
        print(sid, prop, "caught" if rec.get("caught_by_own_check") else "MISSED", rec.get("caught_by"), rec.get("tests"), flush=True)
        json.dump(results, open(res_path, "w"), indent=1, sort_keys=True)


if __name__ == "__main__":
    main()
