#!/bin/sh
# False-alarm measurement: apply each behaviour-preserving patch (*.diff in the given directory, default
# seeded/harmless) to a scratch worktree of /repo, run all 18 quick checks against it from a private copy of
# /verif, and list the checks that raised an alarm.  usage: tools/run_harmless.sh [patch-dir] [tag]
HERE="$(cd "$(dirname "$0")/.." && pwd)"
DIR=${1:-$HERE/seeded/harmless}
TAG=${2:-h}
W=/tmp/harmless_wt_$TAG
V=/tmp/harmless_verif_$TAG
git -C /repo worktree remove --force $W 2>/dev/null
git -C /repo worktree add -q $W HEAD || exit 2
rm -rf $V; cp -r $HERE $V; rm -rf $V/replays $V/work; mkdir -p $V/work
for p in $DIR/*.diff; do
  n=$(basename $p .diff)
  git -C $W checkout -q -- . && git -C $W apply $p || { echo "$n: patch does not apply"; continue; }
  T=$(cd $W && PYTHONPATH=$W/src /venv/bin/python -m pytest -q -p no:cacheprovider 2>&1 | tail -1)
  cd $V
  printf "C01\nC02\nC03\nC04\nC05\nC06\nC07\nC08\nC09\nC10\nC11\nC12\nC13\nC14\nC15\nC16\nC17\nC18\n" | VERIF_REPO=$W xargs -P 4 -I{} sh -c "./check {} > work/$n-{}.log 2>&1; echo \"{} exit=\$?\"" > work/$n.summary
  echo "$n tests: $T ; alarms: $(grep -v 'exit=0' work/$n.summary | tr '\n' ' ')"
done
git -C $W checkout -q -- .
git -C /repo worktree remove --force $W
