#!/usr/bin/env python3
"""writes MANIFEST.json from the table below (kept in one place so it stays valid)"""
import json, os
HERE = os.path.dirname(os.path.abspath(__file__))
VERIF = os.path.dirname(HERE)
props = [json.loads(l) for l in open(os.path.join(VERIF, "properties.jsonl"))]
sys_path = os.path.join(VERIF, "harness")
import sys
sys.path.insert(0, sys_path)
import claims

checks, na = [], []
for p in props:
    pid = p["id"]
    c = claims.CLAIMS.get(pid)
    if c is None or c.get("not_applicable"):
        na.append({"property_id": pid, "reason": (c or {}).get("not_applicable", "check not built yet in this session")})
        continue
    checks.append({
        "property_id": pid,
        "quick_cmd": "./check %s --tier quick" % pid,
        "thorough_cmd": "./check %s --tier thorough" % pid,
        "evidence_file": "evidence/%s.json" % pid,
        "replay_cmd_template": "./check %s --replay {path}" % pid,
        "engine": "lean4-proof+correspondence",
        "level_claimed": {"category": "proof", "text": c["text"], "design_ref": "DESIGN.md §6 %s" % pid},
        "level_note": c["note"],
        "technique": c["technique"],
    })
m = {
    "version": 1,
    "setup_cmd": "./setup.sh",
    "hooks": {
        "guard": "WARNER_PYTHON_SPAKE2_VERIF",
        "enable": "the correspondence harness needs no hooks (it imports /repo/src in-process, injects entropy_f, observes return values and exceptions). One add-only hook exists for the trace slice of C01/C03/C08: with WARNER_PYTHON_SPAKE2_VERIF=1 and WARNER_PYTHON_SPAKE2_VERIF_TRACE=<file>, spake2/__init__.py imports spake2/_verif_hooks.py, which records every public-API call (with the entropy bytes drawn) while the library's own test suite runs; with the guard off nothing is imported",
        "baseline_off_cmd": "cd /repo && /venv/bin/python -m pytest -ra -q -p no:cacheprovider --timeout=900 --continue-on-collection-errors",
        "source_commits": ["10d291a2b9fa6c9e0399a97b28216b6374b72cbd"],
        "add_only": True,
    },
    "engines": [{
        "name": "lean4-proof+correspondence", "path": "check",
        "serves_properties": [c["property_id"] for c in checks],
        "kind_free_text": "Lean 4 theorems about an executable model (lean/Spake2Verif/Properties/*.lean over lean/Spake2Model), tied to /repo on every run by a Python->Lean translator (tools/py2lean.py -> Gen/*.lean) and by a differential correspondence check over a line protocol (harness/); bounded failing-input search on the real code only to produce replays",
    }],
    "checks": checks,
    "not_applicable": na,
    "notes": "Genuine defects repaired in /repo by four `fix:` commits (see known_findings.json `fixed` and DESIGN.md §7); recorded, unrepaired findings are listed in known_findings.json `findings`.",
}
json.dump(m, open(os.path.join(VERIF, "MANIFEST.json"), "w"), indent=1)
print("checks:", [c["property_id"] for c in checks], "n/a:", [x["property_id"] for x in na])
